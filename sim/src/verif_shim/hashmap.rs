//! `std::collections::HashMap` with one difference: the *initial capacity* request is capped by
//! the run's `tt_cap` knob. The engine's table is an unbounded map, so capacity has no semantic
//! effect; allocating 10 M buckets per simulated session would only cost ~10 ms of page faults.
use super::sched;
use std::hash::{BuildHasher, Hash};
use std::ops::{Deref, DerefMut};

pub struct HashMap<K, V, S = std::collections::hash_map::RandomState>(std::collections::HashMap<K, V, S>);

impl<K: Eq + Hash, V, S: BuildHasher> HashMap<K, V, S> {
    pub fn with_capacity_and_hasher(cap: usize, hasher: S) -> Self {
        HashMap(std::collections::HashMap::with_capacity_and_hasher(sched::capped_capacity(cap), hasher))
    }
}
// The two ways of writing an element are seen by the simulator: the search stores a node when it has completed it,
// which is the only sign of node work that does not depend on the search looking at its stop flag.
impl<K: Eq + Hash, V, S: BuildHasher> HashMap<K, V, S> {
    pub fn insert(&mut self, k: K, v: V) -> Option<V> {
        sched::table_store();
        self.0.insert(k, v)
    }
    pub fn entry(&mut self, k: K) -> std::collections::hash_map::Entry<'_, K, V> {
        sched::table_store();
        self.0.entry(k)
    }
}
impl<K, V, S: Default> Default for HashMap<K, V, S> {
    fn default() -> Self {
        HashMap(std::collections::HashMap::default())
    }
}
impl<K: Eq + Hash, V, S: BuildHasher + Default> HashMap<K, V, S> {
    pub fn with_hasher(hasher: S) -> Self {
        HashMap(std::collections::HashMap::with_hasher(hasher))
    }
}
impl<K: Eq + Hash, V> HashMap<K, V, std::collections::hash_map::RandomState> {
    pub fn new() -> Self {
        HashMap(std::collections::HashMap::new())
    }
    pub fn with_capacity(cap: usize) -> Self {
        HashMap(std::collections::HashMap::with_capacity(sched::capped_capacity(cap)))
    }
}
impl<K: std::fmt::Debug, V: std::fmt::Debug, S> std::fmt::Debug for HashMap<K, V, S> {
    fn fmt(&self, f: &mut std::fmt::Formatter<'_>) -> std::fmt::Result {
        self.0.fmt(f)
    }
}
impl<K, V, S> Deref for HashMap<K, V, S> {
    type Target = std::collections::HashMap<K, V, S>;
    fn deref(&self) -> &Self::Target {
        &self.0
    }
}
impl<K, V, S> DerefMut for HashMap<K, V, S> {
    fn deref_mut(&mut self) -> &mut Self::Target {
        &mut self.0
    }
}
impl<K: Clone, V: Clone, S: Clone> Clone for HashMap<K, V, S> {
    fn clone(&self) -> Self {
        HashMap(self.0.clone())
    }
}

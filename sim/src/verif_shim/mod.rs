//! The simulator's side of the import seam (`--cfg daniel729_chess_verif`): the engine's
//! `uci.rs`, `search.rs` and `autoplay.rs` take these names instead of the `std` ones.
pub mod hashmap;
pub mod sched;
pub mod stdio;
pub mod sync;
pub mod thread;

/// Names beyond the ones the engine uses today, so that an edit which adds one to the cfg'd-out
/// `use std::{..}` block still compiles here (simulated where scheduling or time matters, std otherwise).
pub mod extra {
    pub use super::sync::MutexGuard;
    pub use super::thread::{sleep, spawn, yield_now, Instant};
    pub use ::std::collections::{BTreeMap, BTreeSet, HashSet, VecDeque};
    pub use ::std::io::{self, BufRead, Read, Write};
    pub use ::std::sync::atomic::Ordering::{self, AcqRel, Acquire, Release, SeqCst};
    pub use ::std::sync::atomic::{AtomicI32, AtomicI64, AtomicU32, AtomicU64, AtomicU8, AtomicUsize};
    pub use ::std::sync::{atomic, mpsc, Condvar, RwLock};
    pub use ::std::time::{self, SystemTime};
}

pub mod uci_prelude {
    pub use super::extra::*;
    pub use super::hashmap::HashMap;
    pub use super::stdio::stdin;
    pub use super::sync::{AtomicBool, Mutex, Relaxed};
    pub use super::thread::{self, JoinHandle};
    pub use ::std::str::SplitAsciiWhitespace;
    pub use ::std::sync::Arc;
    pub use ::std::time::Duration;
}

pub mod search_prelude {
    pub use super::extra::*;
    pub use super::hashmap::HashMap;
    pub use super::sync::{AtomicBool, Mutex, Relaxed};
    pub use super::thread::{self, JoinHandle};
    pub use ::std::sync::Arc;
    pub use ::std::time::Duration;
}

pub mod autoplay_prelude {
    pub use super::extra::*;
    pub use super::hashmap::HashMap;
    pub use super::sync::{AtomicBool, Mutex, Relaxed};
    pub use super::thread::{self, JoinHandle};
    pub use ::std::sync::Arc;
    pub use ::std::time::Duration;
    /// `autoplay.rs` writes `std::thread::spawn` / `std::thread::sleep` in full; this module
    /// shadows the extern crate name inside that file. Everything else of `std` stays reachable.
    pub mod std {
        pub use ::std::{cmp, collections, fmt, io, iter, mem, ops, str, string, sync, time, vec};
        pub mod thread {
            pub use crate::verif_shim::thread::{sleep, spawn, yield_now, JoinHandle};
        }
    }
}

//! rbsim - deterministic simulation of the RustyBait engine (Daniel729/chess).
//!
//! This crate has no chess engine of its own: `build.rs` mounts the repository's own source files
//! (`$VERIF_REPO/src/{chess,constants,search,uci,autoplay}`) as modules of this crate, compiled with
//! `--cfg daniel729_chess_verif` so that their thread/sync/stdin/hash-map names resolve to the
//! simulator's `verif_shim` module. `println!`/`print!` are shadowed below for the same reason.
#![allow(dead_code, unused_macros, unused_assignments, clippy::all)]

macro_rules! println {
    () => { $crate::verif_shim::sched::out_write("\n") };
    ($($arg:tt)*) => {{ let mut s = format!($($arg)*); s.push('\n'); $crate::verif_shim::sched::out_write(&s) }};
}
macro_rules! print {
    ($($arg:tt)*) => {{ let s = format!($($arg)*); $crate::verif_shim::sched::out_write(&s) }};
}

pub mod verif_shim;
include!(concat!(env!("OUT_DIR"), "/mount.rs"));

mod case;
mod corpus;
mod exec;
mod gui;
mod minimise;
mod model;
mod oracle;
mod workload;

use case::Case;
use serde_json::{json, Value};
use std::collections::BTreeMap;
use verif_shim::sched::{self, Outcome, Verdict};

fn arg<'a>(args: &'a [String], name: &str) -> Option<&'a str> {
    args.iter().position(|a| a == name).and_then(|i| args.get(i + 1)).map(|s| s.as_str())
}
fn arg_u64(args: &[String], name: &str, default: u64) -> u64 {
    arg(args, name).and_then(|s| s.parse().ok()).unwrap_or(default)
}

fn verdict_name(v: &Verdict) -> &'static str {
    match v {
        Verdict::Exit(Ok(())) => "exit",
        Verdict::Exit(Err(_)) => "exit-error",
        Verdict::MainPanicked => "main-panicked",
        Verdict::Deadlock(_) => "deadlock",
        Verdict::StepLimit => "step-limit",
        Verdict::PollLimit => "poll-limit",
    }
}

pub fn trace(out: &Outcome) -> String {
    let mut s = String::new();
    for e in &out.events {
        s.push_str(&sched::render_event(e, &out.threads));
        s.push('\n');
    }
    s.push_str(&format!("verdict: {:?}\nsteps={} switches={} polls={} sim_time_ns={} log_hash={:016x}\n", out.verdict, out.steps, out.switches, out.polls, out.now, out.log_hash));
    s
}

fn selftest(thorough: bool) -> Result<(), String> {
    model::self_test(thorough)?;
    for r in corpus::ROOTS {
        let p = gui::root_pos(&workload::root_cmd(r)).ok_or(format!("corpus root {} rejected by the model", r.name))?;
        let _ = p.legal_moves();
    }
    for (root, line) in corpus::RIGHTS_LINES.iter().chain(corpus::PERPETUALS.iter()) {
        let mut p = gui::root_pos(root).ok_or(format!("line root {} rejected by the model", root))?;
        for m in line.split_ascii_whitespace() {
            if !p.play(m) {
                return Err(format!("corpus line `{}` from {}: move {} is not legal", line, root, m));
            }
        }
    }
    for (root, a, b) in corpus::MOVE_TWINS {
        let mut pa = gui::root_pos(&if *root == "startpos" { "startpos".to_string() } else { format!("fen {}", root) }).ok_or("twin root")?;
        let mut pb = pa.clone();
        for m in a.split_ascii_whitespace() {
            if !pa.play(m) {
                return Err(format!("twin line A `{}`: move {} is not legal", a, m));
            }
        }
        for m in b.split_ascii_whitespace() {
            if !pb.play(m) {
                return Err(format!("twin line B `{}`: move {} is not legal", b, m));
            }
        }
        if pa.placement() != pb.placement() || pa.white_to_move() != pb.white_to_move() || pa.castling() != pb.castling() {
            return Err(format!("twin lines `{}` / `{}` do not reach the same placement", a, b));
        }
    }
    for grp in corpus::SIBLINGS {
        for f in *grp {
            model::Pos::from_fen(f).map_err(|e| format!("sibling root {} rejected by the model: {}", f, e))?;
        }
    }
    let p = model::Pos::from_fen("R6R/3Q4/1Q4Q1/4Q3/2Q4Q/Q4Q2/pp1Q4/kBNN1KB1 w - - 0 1").unwrap();
    if p.legal_moves().len() != 218 {
        return Err("218-move position".into());
    }
    Ok(())
}

/// runs a case and applies the oracles (for C19 cases also the fresh-engine baseline comparison)
fn evaluate(case: &Case) -> (Outcome, oracle::Analysis, Option<String>) {
    let out = exec::run_case(case);
    let mut an = oracle::analyse(case, &out);
    let mut c19sig = None;
    if case.prop == "C19" {
        if let Some(b) = workload::c19_baseline(case) {
            let bout = exec::run_case(&b);
            let ban = oracle::analyse(&b, &bout);
            let bt = oracle::last_search_transcript(&b, &bout, &ban);
            let gt = oracle::last_search_transcript(case, &out, &an);
            if let Some(t) = &bt {
                let mut h = 0xcbf29ce484222325u64;
                for l in t {
                    for by in l.bytes() {
                        h ^= by as u64;
                        h = h.wrapping_mul(0x100000001b3);
                    }
                    h ^= 10;
                    h = h.wrapping_mul(0x100000001b3);
                }
                c19sig = Some(format!("{:016x}", h));
            }
            oracle::compare_c19(&mut an, case, bt, gt);
        }
    }
    (out, an, c19sig)
}

/// Systematic single-preemption sweep: the case is first run under the default rule (keep running, lowest id when
/// blocked, bounded unfairness), recording every point at which another runnable thread existed; then once per such
/// (point, other thread) pair with exactly that one switch forced. One summary line for the whole sweep.
fn run_preempt1(case: &Case, prop: &str, dump: Option<&str>) -> Value {
    let mut base = case.clone();
    base.plan = sched::Plan::Scripted { decisions: vec![], oversleeps: vec![] };
    base.params.record_opps = true;
    let (out0, an0, _) = evaluate(&base);
    let mut sum = summarise(&base, &out0, &an0, prop);
    let mut evals = 1u64;
    let mut keys = vec![format!("{:016x}|{:016x}", base.workload_hash(), out0.sig)];
    let mut dumped = an0.viols.iter().any(|v| v.prop == prop);
    if dumped {
        if let Some(d) = dump {
            let path = format!("{}/{}-{}.case.json", d, prop, case.seed);
            let mut b2 = base.clone();
            b2.params.record_opps = false;
            let _ = std::fs::write(&path, serde_json::to_string_pretty(&b2.to_json()).unwrap());
        }
    }
    let mut viols: Vec<Value> = sum["viols"].as_array().cloned().unwrap_or_default();
    let mut faults: BTreeMap<String, u64> = BTreeMap::new();
    let mut probes: BTreeMap<String, u64> = BTreeMap::new();
    let add_maps = |s: &Value, faults: &mut BTreeMap<String, u64>, probes: &mut BTreeMap<String, u64>| {
        for (k, v) in s["faults"].as_object().unwrap() {
            *faults.entry(k.clone()).or_insert(0) += v.as_u64().unwrap_or(0);
        }
        for (k, v) in s["probes"].as_object().unwrap() {
            *probes.entry(k.clone()).or_insert(0) += v.as_u64().unwrap_or(0);
        }
    };
    add_maps(&sum, &mut faults, &mut probes);
    let (mut steps, mut switches, mut polls, mut sim_ns, mut gos, mut answered, mut inconcl) = (out0.steps, out0.switches, out0.polls, out0.now, an0.accepted_gos, an0.answered_gos, 0u64);
    // budget: the session is re-run once per candidate, so the number of candidates shrinks with the cost of the
    // base run (deterministically: by its poll count); candidates are taken evenly spaced from the recorded list
    let budget = (150_000 / out0.polls.max(1)).clamp(16, 300) as usize;
    let n_opps = out0.opps.len();
    let chosen: Vec<&sched::Decision> = if n_opps <= budget { out0.opps.iter().collect() } else { (0..budget).map(|i| &out0.opps[i * n_opps / budget]).collect() };
    for opp in chosen {
        let mut c2 = case.clone();
        c2.plan = sched::Plan::Scripted { decisions: vec![opp.clone()], oversleeps: vec![] };
        let (o, a, _) = evaluate(&c2);
        evals += 1;
        *faults.entry("forced single preemption".into()).or_insert(0) += 1;
        let s2 = summarise(&c2, &o, &a, prop);
        add_maps(&s2, &mut faults, &mut probes);
        keys.push(format!("{:016x}|{:016x}", c2.workload_hash(), o.sig));
        steps += o.steps;
        switches += o.switches;
        polls += o.polls;
        sim_ns += o.now;
        gos += a.accepted_gos;
        answered += a.answered_gos;
        if a.inconclusive {
            inconcl += 1;
        }
        if a.viols.iter().any(|v| v.prop == prop) {
            for v in s2["viols"].as_array().unwrap() {
                if !viols.iter().any(|x| x["rule"] == v["rule"]) {
                    viols.push(v.clone());
                }
            }
            if !dumped {
                dumped = true;
                if let Some(d) = dump {
                    let path = format!("{}/{}-{}.case.json", d, prop, case.seed);
                    let _ = std::fs::write(&path, serde_json::to_string_pretty(&c2.to_json()).unwrap());
                }
            }
        }
    }
    // thorough tier: pairs of preemptions (bound 2) on a subsample: each chosen first switch is replayed while its own
    // later opportunities are recorded, then every pair (first, later second) is run
    if case.has_tag("preempt2") {
        let firsts: Vec<sched::Decision> = {
            let n = out0.opps.len();
            let b = 24usize.min(n);
            (0..b).map(|i| out0.opps[i * n / b.max(1)].clone()).collect()
        };
        for d1 in firsts {
            let mut c1 = case.clone();
            c1.plan = sched::Plan::Scripted { decisions: vec![d1.clone()], oversleeps: vec![] };
            c1.params.record_opps = true;
            let (o1, _, _) = evaluate(&c1);
            let later: Vec<&sched::Decision> = o1.opps.iter().filter(|d| !(d.th == d1.th && d.pt == d1.pt && d.occ == d1.occ)).collect();
            let n = later.len();
            let b = 24usize.min(n);
            for i in 0..b {
                let d2 = later[i * n / b].clone();
                let mut c2 = case.clone();
                c2.plan = sched::Plan::Scripted { decisions: vec![d1.clone(), d2], oversleeps: vec![] };
                let (o, a, _) = evaluate(&c2);
                evals += 1;
                *faults.entry("forced pair of preemptions".into()).or_insert(0) += 1;
                let s2 = summarise(&c2, &o, &a, prop);
                add_maps(&s2, &mut faults, &mut probes);
                keys.push(format!("{:016x}|{:016x}", c2.workload_hash(), o.sig));
                steps += o.steps;
                switches += o.switches;
                polls += o.polls;
                sim_ns += o.now;
                gos += a.accepted_gos;
                answered += a.answered_gos;
                if a.viols.iter().any(|v| v.prop == prop) {
                    for v in s2["viols"].as_array().unwrap() {
                        if !viols.iter().any(|x| x["rule"] == v["rule"]) {
                            viols.push(v.clone());
                        }
                    }
                    if !dumped {
                        dumped = true;
                        if let Some(d) = dump {
                            let path = format!("{}/{}-{}.case.json", d, prop, case.seed);
                            let _ = std::fs::write(&path, serde_json::to_string_pretty(&c2.to_json()).unwrap());
                        }
                    }
                }
            }
        }
    }
    keys.sort();
    keys.dedup();
    sum["viols"] = json!(viols);
    sum["evals"] = json!(evals);
    sum["distinct_keys"] = json!(keys);
    sum["faults"] = json!(faults);
    sum["probes"] = json!(probes);
    sum["steps"] = json!(steps);
    sum["switches"] = json!(switches);
    sum["polls"] = json!(polls);
    sum["sim_ns"] = json!(sim_ns);
    sum["gos"] = json!(gos);
    sum["answered"] = json!(answered);
    sum["inconclusive"] = json!(false);
    sum["inconclusive_sub"] = json!(inconcl);
    sum["policy"] = json!("single-preemption sweep");
    sum
}

/// one summary line per run (JSON)
fn summarise(case: &Case, out: &Outcome, an: &oracle::Analysis, prop: &str) -> Value {
    let mine: Vec<&oracle::Viol> = an.viols.iter().filter(|v| v.prop == prop).collect();
    let others: Vec<String> = {
        let mut o: Vec<String> = an.viols.iter().filter(|v| v.prop != prop).map(|v| format!("{}/{}", v.prop, v.rule)).collect();
        o.sort();
        o.dedup();
        o
    };
    let nontrivial = oracle::nontrivial_for(prop, case, out, an);
    json!({
        "seed": case.seed,
        "family": case.family,
        "verdict": verdict_name(&out.verdict),
        "viols": mine.iter().map(|v| json!({"rule": v.rule, "detail": v.detail, "at": v.at})).collect::<Vec<_>>(),
        "other": others,
        "inconclusive": an.inconclusive,
        "gos": an.accepted_gos,
        "answered": an.answered_gos,
        "pv": an.infos_checked,
        "pvm": an.pv_moves_checked,
        "steps": out.steps,
        "switches": out.switches,
        "polls": out.polls,
        "sim_ns": out.now,
        "policy": case.params.policy.describe(),
        "faults": out.faults,
        "probes": an.probes,
        "wl": format!("{:016x}", case.workload_hash()),
        "sig": format!("{:016x}", out.sig),
        "log": format!("{:016x}", out.log_hash),
        "nontrivial": nontrivial,
        "evals": if case.mode == case::Mode::Direct { an.accepted_gos.max(1) } else { 1 },
        "stops": an.stops_observed,
        "distinct_keys": an.distinct_keys.iter().map(|k| format!("{:016x}|{}", case.workload_hash(), k)).collect::<Vec<_>>(),
        "decisions": out.decisions.len(),
    })
}

fn main() {
    let args: Vec<String> = std::env::args().collect();
    sched::install_panic_hook();
    let cmd = args.get(1).map(|s| s.as_str()).unwrap_or("help");
    match cmd {
        "selftest" => match selftest(args.iter().any(|a| a == "--thorough")) {
            Ok(()) => std::println!("selftest ok"),
            Err(e) => {
                std::eprintln!("selftest FAILED: {}", e);
                std::process::exit(2);
            }
        },
        "gen" => {
            // print the case a seed expands to
            let prop = arg(&args, "--prop").unwrap_or("C14");
            let seed = arg_u64(&args, "--seed", 1);
            let c = workload::gen(prop, seed, args.iter().any(|a| a == "--thorough"));
            std::println!("{}", serde_json::to_string_pretty(&c.to_json()).unwrap());
        }
        "batch" => {
            // seeds base+from, base+from+stride, ... < base+to
            let prop = arg(&args, "--prop").unwrap_or("C14").to_string();
            let base = arg_u64(&args, "--base", 1_000_000);
            let from = arg_u64(&args, "--from", 0);
            let to = arg_u64(&args, "--to", 10);
            let stride = arg_u64(&args, "--stride", 1).max(1);
            let thorough = args.iter().any(|a| a == "--thorough");
            let dump = arg(&args, "--dump-dir").map(|s| s.to_string());
            let deadline = arg(&args, "--seconds").and_then(|s| s.parse::<f64>().ok()).map(|s| std::time::Instant::now() + std::time::Duration::from_secs_f64(s));
            let mut i = from;
            while i < to {
                if let Some(d) = deadline {
                    if std::time::Instant::now() > d {
                        break;
                    }
                }
                let seed = base + i;
                let case = workload::gen(&prop, seed, thorough);
                std::println!("BEGIN {}", seed);
                if case.has_tag("preempt1") {
                    let s = run_preempt1(&case, &prop, dump.as_deref());
                    std::println!("RUN {}", s);
                    i += stride;
                    continue;
                }
                let (out, an, c19sig) = evaluate(&case);
                let mut s = summarise(&case, &out, &an, &prop);
                if let Some(sig) = c19sig {
                    s["c19sig"] = json!(sig);
                    s["c19item"] = json!(case.tags.iter().find_map(|t| t.strip_prefix("c19item=")).unwrap_or(""));
                }
                if an.viols.iter().any(|v| v.prop == prop) {
                    if let Some(d) = &dump {
                        // keep the failing case with the decisions and faults that were actually taken
                        let mut c2 = case.clone();
                        c2.plan = sched::Plan::Scripted { decisions: out.decisions.clone(), oversleeps: out.oversleeps.clone() };
                        let path = format!("{}/{}-{}.case.json", d, prop, seed);
                        let _ = std::fs::write(&path, serde_json::to_string_pretty(&c2.to_json()).unwrap());
                    }
                }
                std::println!("RUN {}", s);
                i += stride;
            }
            std::println!("DONE");
        }
        "run" | "replay" => {
            let path = args.get(2).expect("case file");
            let text = std::fs::read_to_string(path).expect("read case file");
            let v: Value = serde_json::from_str(&text).expect("case file is not JSON");
            let case = Case::from_json(v.get("case").unwrap_or(&v)).expect("malformed case");
            let (out, an, _) = evaluate(&case);
            if !args.iter().any(|a| a == "--quiet") {
                std::print!("{}", trace(&out));
            }
            for vl in &an.viols {
                std::println!("RULE-VIOLATED {} {} at={} : {}", vl.prop, vl.rule, vl.at, vl.detail);
            }
            if cmd == "replay" {
                let want_prop = v["violation"]["property"].as_str().unwrap_or(&case.prop).to_string();
                let want_rule = v["violation"]["rule"].as_str().map(|s| s.to_string());
                let want_hash = v["violation"]["log_hash"].as_str().map(|s| s.to_string());
                let hit = an.viols.iter().any(|x| x.prop == want_prop && want_rule.as_ref().map_or(true, |r| r == x.rule));
                let hash_ok = want_hash.as_ref().map_or(true, |h| *h == format!("{:016x}", out.log_hash));
                if hit && hash_ok {
                    std::println!("REPRODUCED property={} rule={} log_hash={:016x}", want_prop, want_rule.unwrap_or_default(), out.log_hash);
                    std::process::exit(1);
                } else if hit {
                    std::println!("REPRODUCED-WITH-DIFFERENT-LOG property={} (expected log {:?}, got {:016x})", want_prop, want_hash, out.log_hash);
                    std::process::exit(3);
                } else {
                    std::println!("NOT-REPRODUCED property={} rule={:?}", want_prop, want_rule);
                    std::process::exit(2);
                }
            }
        }
        "findcastle" => {
            // development aid: positions in which the engine's depth-2/3 choice is a castling move (used to build
            // corpus::CASTLE_PREFERRED, whose siblings lack exactly the right that move needs)
            let n = arg_u64(&args, "--n", 2000);
            let mut rng = workload::Rng::new(arg_u64(&args, "--seed", 1), 0xca);
            let roots = ["r3k2r/p1ppqpb1/bn2pnp1/3PN3/1p2P3/2N2Q1p/PPPBBPPP/R3K2R w KQkq - 0 1", "r3k2r/pppppppp/8/8/8/8/PPPPPPPP/R3K2R w KQkq - 0 1", "r3k2r/pppq1ppp/2npbn2/2b1p3/2B1P3/2NPBN2/PPPQ1PPP/R3K2R w KQkq - 0 1", "r3k2r/8/8/8/8/8/8/R3K2R w KQkq - 0 1", "r3k2r/1pp2pp1/8/8/8/8/1PP2PP1/R3K2R b KQkq - 0 1"];
            let mut found = std::collections::BTreeSet::new();
            for _ in 0..n {
                let root = *rng.pick(&roots);
                let k = rng.below(14);
                let pre = workload::walk(&mut rng, root, k);
                let mut p = model::Pos::from_fen(root).unwrap();
                for m in &pre {
                    p.play(m);
                }
                if p.castling() == "-" {
                    continue;
                }
                let d = rng.range(1, 3) as u8;
                let mut c = Case::new("dev", "findcastle", 0, case::Mode::Direct);
                c.params.max_polls = 100_000;
                c.params.max_steps = 400_000;
                c.items.push(case::DItem { root: root.to_string(), moves: pre.clone(), depth: Some(d), stop_at: None, pre_stopped: false, fresh: true, isolated: false, sweep: None, descend: None, walks: None });
                let out = exec::run_case(&c);
                let an = oracle::analyse(&c, &out);
                if let Some(g) = an.gos.first() {
                    if let Some(b) = &g.best {
                        let castle = (b == "e1g1" || b == "e1c1" || b == "e8g8" || b == "e8c8") && p.legal_moves().contains(b) && {
                            let mut q = p.clone();
                            q.play(b);
                            q.castling() != p.castling()
                        };
                        // castling moves are king moves of two files from e1/e8 by a king
                        if castle && found.insert(p.to_fen()) {
                            std::println!("{} | depth {} | {}", p.to_fen(), d, b);
                        }
                    }
                }
            }
        }
        "minimise" => {
            let inp = arg(&args, "--in").expect("--in");
            let outp = arg(&args, "--out").expect("--out");
            let prop = arg(&args, "--prop").expect("--prop");
            let budget = arg_u64(&args, "--runs", 300);
            let text = std::fs::read_to_string(inp).expect("read case file");
            let v: Value = serde_json::from_str(&text).expect("json");
            let case = Case::from_json(v.get("case").unwrap_or(&v)).expect("malformed case");
            match minimise::minimise(case, prop, arg(&args, "--rule"), budget) {
                Some(r) => {
                    std::fs::write(outp, serde_json::to_string_pretty(&r).unwrap()).expect("write");
                    std::println!("MINIMISED {}", outp);
                }
                None => {
                    std::println!("NOT-REPRODUCED");
                    std::process::exit(2);
                }
            }
        }
        _ => {
            std::println!("usage: rbsim selftest|gen|batch|run|replay|minimise ...");
        }
    }
    let _: BTreeMap<u8, u8> = BTreeMap::new();
}

//! Seeded workload generators: one integer -> one case (scenario, parameters, policy, fault plan).

use crate::case::{Case, DItem, Descend, Mode, Sweep, Walks, GK};
use crate::corpus::{Root, MOVE_TWINS, ODD_FENS, PERPETUALS, RIGHTS_LINES, ROOTS, SIBLINGS};
use crate::model::Pos;
use crate::verif_shim::sched::{splitmix, Policy};

pub struct Rng(pub u64);
impl Rng {
    pub fn new(seed: u64, salt: u64) -> Rng {
        let mut s = seed ^ salt.wrapping_mul(0x9E3779B97F4A7C15);
        splitmix(&mut s);
        Rng(s)
    }
    pub fn next(&mut self) -> u64 {
        splitmix(&mut self.0)
    }
    pub fn below(&mut self, n: u64) -> u64 {
        if n == 0 {
            0
        } else {
            self.next() % n
        }
    }
    pub fn range(&mut self, lo: u64, hi: u64) -> u64 {
        lo + self.below(hi - lo + 1)
    }
    pub fn chance(&mut self, num: u64, den: u64) -> bool {
        self.below(den) < num
    }
    pub fn pick<'a, T>(&mut self, v: &'a [T]) -> &'a T {
        &v[self.below(v.len() as u64) as usize]
    }
    /// log-uniform in [lo, hi]
    pub fn log_uniform(&mut self, lo: u64, hi: u64) -> u64 {
        let l = (lo.max(1) as f64).ln();
        let h = (hi.max(1) as f64).ln();
        let u = (self.next() >> 11) as f64 / (1u64 << 53) as f64;
        ((l + u * (h - l)).exp() as u64).clamp(lo, hi)
    }
}

pub fn root_cmd(r: &Root) -> String {
    if r.fen == "startpos" {
        "startpos".into()
    } else {
        format!("fen {}", r.fen)
    }
}

/// random legal walk of up to n plies on the model; returns the moves
pub fn walk(rng: &mut Rng, root: &str, n: u64) -> Vec<String> {
    let mut out = vec![];
    let Some(mut p) = crate::gui::root_pos(root) else { return out };
    for _ in 0..n {
        let l = p.legal_moves();
        if l.is_empty() {
            break;
        }
        let mut m = rng.pick(&l).clone();
        if rng.chance(1, 3) {
            // prefer a capture now and then: trades on home corners, promotions with capture, recaptures
            for _ in 0..8 {
                let c = rng.pick(&l).clone();
                let mut q = p.clone();
                q.play(&c);
                if q.piece_count() < p.piece_count() {
                    m = c;
                    break;
                }
            }
        }
        p.play(&m);
        out.push(m);
    }
    out
}

fn piece_class(p: &Pos) -> u8 {
    match p.piece_count() {
        0..=5 => 0,
        6..=12 => 1,
        _ => 2,
    }
}

fn max_depth_for(class: u8) -> u64 {
    match class {
        0 => 6,
        1 => 4,
        2 => 3,
        _ => 2,
    }
}

pub fn swarm_params(rng: &mut Rng, case: &mut Case) {
    let p = &mut case.params;
    p.policy = match rng.below(100) {
        0..=19 => Policy::Np,
        20..=34 => Policy::Rw(5),
        35..=54 => Policy::Rw(50),
        55..=74 => Policy::Rw(300),
        _ => Policy::Pct(rng.range(1, 3) as u8),
    };
    p.fair = *rng.pick(&[2u32, 8, 64, 400]);
    p.node_cost = *rng.pick(&[10_000u64, 100_000, 1_000_000]);
    p.oversleep_max = *rng.pick(&[0u64, 0, 1_000_000, 4_000_000]);
    p.tt_cap = *rng.pick(&[0usize, 16, 1024, 65_536]);
}

/// movetime (ms) that gives the search about `polls` node polls at the case's node cost
fn movetime_for(case: &Case, polls: u64) -> u64 {
    5 + (polls * case.params.node_cost + 999_999) / 1_000_000
}

/// emits one `go` of a random kind together with the GUI behaviour around it
fn emit_go(rng: &mut Rng, case: &mut Case, class: u8, allow_infinite: bool) {
    let dmax = max_depth_for(class);
    let kind = rng.below(100);
    let ping = rng.chance(1, 4);
    if kind < 35 {
        // depth-limited, awaited; sometimes with a (long) time budget as well, so that the search ends before its timer
        let d = rng.range(1, dmax);
        if rng.chance(1, 6) {
            let polls = rng.log_uniform(200, 200_000);
            case.raw(format!("go depth {} movetime {}", d, movetime_for(case, polls)));
        } else if rng.chance(1, 10) {
            let polls = rng.log_uniform(200, 200_000);
            let want = movetime_for(case, polls);
            case.push(GK::GoClockDepth { own: want * 50 + 8_000, own_inc: 0, opp: rng.log_uniform(1, 600_000), opp_inc: 0, depth: d as u32 });
        } else if rng.chance(1, 25) {
            case.raw("go depth 0");
        } else {
            case.raw(format!("go depth {}", d));
        }
        if ping {
            case.raw("isready");
            if rng.chance(1, 2) {
                case.push(GK::AwaitReady);
            }
        }
        if rng.chance(1, 5) {
            case.raw("wait");
        }
        case.push(GK::AwaitBest);
        if rng.chance(1, 8) {
            case.raw("stop"); // stop after the natural end
        }
    } else if kind < 55 {
        // fixed move time
        let polls = if rng.chance(1, 4) { rng.below(4) } else { rng.log_uniform(1, 6_000) };
        let mt = if rng.chance(1, 6) { rng.below(7) } else { movetime_for(case, polls) };
        // one in five also carries a depth limit that cannot be reached in that time: the time still binds
        match rng.below(10) {
            0 => case.raw(format!("go depth {} movetime {}", rng.range(30, 64), mt)),
            1 => case.raw(format!("go movetime {} depth {}", mt, rng.range(30, 64))),
            _ => case.raw(format!("go movetime {}", mt)),
        }
        if ping {
            case.raw("isready");
        }
        case.push(GK::AwaitBest);
    } else if kind < 70 {
        // clocks: budget = 2% of own clock + inc - 150 - 5
        let polls = rng.log_uniform(1, 6_000);
        let want = movetime_for(case, polls) - 5;
        let own = rng.log_uniform(1_000, 600_000u64.min(50 * (want + 155)));
        let base = own / 50;
        let inc = (want + 155).saturating_sub(base);
        let opp = rng.log_uniform(1, 3_600_000);
        let opp_inc = if rng.chance(1, 2) { 0 } else { rng.log_uniform(1, 30_000) };
        if rng.chance(1, 5) {
            case.push(GK::GoClockDepth { own, own_inc: inc, opp, opp_inc, depth: rng.range(30, 64) as u32 });
        } else {
            case.push(GK::GoClock { own, own_inc: inc, opp, opp_inc });
        }
        if ping {
            case.raw("isready");
        }
        case.push(GK::AwaitBest);
    } else if kind < 90 && allow_infinite {
        // unlimited, stopped by the GUI
        case.raw("go infinite");
        match rng.below(4) {
            0 => {} // go immediately followed by stop
            1 => case.push(GK::AfterPolls(rng.below(4))),
            2 => case.push(GK::AfterPolls(rng.log_uniform(1, 5_000))),
            _ => case.push(GK::Delay(rng.log_uniform(1_000, 50_000_000))),
        }
        if ping {
            case.raw("isready");
            if rng.chance(1, 2) {
                case.push(GK::AwaitReady);
            }
        }
        if rng.chance(1, 10) {
            case.raw("ucinewgame");
        } else {
            case.raw("stop");
        }
        case.push(GK::AwaitBest);
    } else if kind >= 95 {
        // a command arriving at the very instant the timer of this search fires
        let polls = rng.log_uniform(1, 2_000);
        let mt = movetime_for(case, polls);
        let nc = case.params.node_cost as i64;
        let jitter = *rng.pick(&[-2i64, -1, 0, 0, 0, 1, 2, 5]) * nc;
        case.raw(format!("go movetime {}", mt));
        case.push(GK::Delay((((mt - 5) * 1_000_000) as i64 + jitter).max(0) as u64));
        match rng.below(5) {
            0 => case.raw("stop"),
            1 => case.raw("isready"),
            2 => case.raw("ucinewgame"),
            3 => {
                case.push(GK::PosCur);
                case.raw("go depth 1");
            }
            _ => case.raw("show"),
        }
        case.push(GK::AwaitBest);
    } else {
        // burst: go + stop back to back, or a second go while the first is running
        let d = rng.range(1, dmax);
        case.raw(format!("go depth {}", d));
        if rng.chance(1, 2) {
            case.raw("stop");
        } else {
            case.push(GK::PosCur);
            case.raw("go depth 1");
            case.raw("stop");
        }
        case.push(GK::AwaitBest);
    }
}

/// C14 / C06 / C18 session generator. `profile`: 0 = command mix (C14), 1 = table histories (C06/C18)
pub fn gen_session(prop: &str, seed: u64, profile: u8, faults: bool) -> Case {
    let mut rng = Rng::new(seed, 0x14);
    let mut case = Case::new(prop, if profile == 0 { "session-mix" } else { "session-table-history" }, seed, Mode::Session);
    if faults {
        swarm_params(&mut rng, &mut case);
    } else {
        case.params.policy = Policy::Np;
        case.params.fair = 64;
        case.params.node_cost = 100_000;
        case.params.tt_cap = 1024;
        case.family.push_str("/fault-free");
    }
    if rng.chance(1, 3) {
        case.raw("uci");
    }
    if rng.chance(1, 3) {
        case.raw("isready");
        case.push(GK::AwaitReady);
    }
    let games = rng.range(1, if profile == 0 { 3 } else { 2 });
    let mut quit_mid_search = false;
    for g in 0..games {
        if rng.chance(1, 2) {
            case.raw("ucinewgame");
        }
        // root
        let (root, class) = if profile == 1 && rng.chance(1, 4) {
            let grp = rng.pick(SIBLINGS);
            let f = *rng.pick(grp);
            (format!("fen {}", f), piece_class(&Pos::from_fen(f).unwrap()))
        } else {
            let r = rng.pick(ROOTS);
            (root_cmd(r), r.class)
        };
        let pre_n = if rng.chance(1, 2) { 0 } else { rng.below(10) };
        let mut pre = walk(&mut rng, &root, pre_n);
        let mut root = root;
        let mut class = if pre.len() > 4 { class.max(1) } else { class };
        if rng.chance(1, 10) {
            let pl = rng.below(3);
            let ts = rng.range(4, 9) as usize;
            if let Some(l) = shuffle_line(&mut rng, &root, pl, ts) {
                pre = l;
            }
        }
        if rng.chance(1, 15) {
            let (f, m) = *rng.pick(PERPETUALS);
            root = format!("fen {}", f);
            pre = m.split_ascii_whitespace().map(|x| x.to_string()).collect();
            if rng.chance(1, 2) {
                pre.pop();
            }
            class = 0;
        }
        if rng.chance(1, 12) {
            // a long game record (60..396 plies): whatever the engine derives from the length of the game so far
            let n = *rng.pick(&[60u64, 99, 100, 101, 120, 199, 200, 201, 255, 256, 300, 396]) + rng.below(3);
            let l = long_walk(&mut rng, &root, n.min(396));
            if l.len() >= 50 {
                pre = l;
                class = class.max(1);
            }
        }
        case.push(GK::NewGame { root: root.clone(), pre });
        let turns = if profile == 0 { rng.range(1, 4) } else { rng.range(2, 8) };
        for t in 0..turns {
            if faults && profile == 0 && rng.chance(1, 8) {
                // a command the engine has to refuse or ignore: no game set, no search running
                case.raw(*rng.pick(&["go depth 1", "go depth 0", "go movetime 50", "go infinite", "stop", "wait", "show", "ucinewgame", "isready", "go", "position startpos moves e2e5", "position startpos moves e2e4 e7e5 e1g1", "position", "position startpos moves"]));
            }
            case.push(GK::PosCur);
            if rng.chance(1, 8) {
                case.raw("show");
            }
            let last = g + 1 == games && t + 1 == turns;
            if last && faults && rng.chance(1, 6) {
                // leave while searching
                case.raw("go infinite");
                case.push(GK::AfterPolls(rng.below(300)));
                quit_mid_search = true;
                break;
            }
            if faults {
                emit_go(&mut rng, &mut case, class, true);
            } else {
                let d = rng.range(1, max_depth_for(class));
                case.raw(format!("go depth {}", d));
                case.push(GK::AwaitBest);
            }
            // continue the same game, revisit, or step back
            match rng.below(10) {
                0..=5 => case.push(GK::Advance { best: true, replies: vec![rng.next() as u32] }),
                6 => case.push(GK::Advance { best: false, replies: vec![rng.next() as u32, rng.next() as u32] }),
                7 => case.push(GK::Retreat(rng.range(1, 2) as u32)),
                _ => {} // revisit the same position
            }
            if profile == 1 && rng.chance(1, 6) {
                // repetition shuffle back to the position just searched (root repetition filter + cached root entry)
                case.push(GK::RepeatAfterBest);
                case.push(GK::PosCur);
                case.raw(format!("go depth {}", rng.range(1, max_depth_for(class))));
                case.push(GK::AwaitBest);
            }
            if profile == 1 && rng.chance(1, 5) {
                // search a sibling position in between without clearing the table
                let grp = rng.pick(SIBLINGS);
                let f = *rng.pick(grp);
                case.raw(format!("position fen {}", f));
                case.raw(format!("go depth {}", rng.range(1, 4)));
                case.push(GK::AwaitBest);
            }
        }
        if quit_mid_search {
            break;
        }
    }
    if rng.chance(1, 2) || quit_mid_search && rng.chance(1, 2) {
        case.raw("quit");
    } else {
        case.push(GK::Close);
    }
    case
}

/// Unstructured sessions: a random walk over the command alphabet (any order, pipelined or awaited), the only care
/// taken being that the script never waits for the end of a search nobody will stop.
pub fn gen_chaos(prop: &str, seed: u64) -> Case {
    let mut rng = Rng::new(seed, 0xc4a05);
    let mut case = Case::new(prop, "session-chaos", seed, Mode::Session);
    swarm_params(&mut rng, &mut case);
    let r = loop {
        let r = rng.pick(ROOTS);
        if r.class != 3 {
            break r;
        }
    };
    let pre_n = if rng.chance(1, 2) { 0 } else { rng.below(8) };
    let pre = walk(&mut rng, r.fen, pre_n);
    let class = if pre.len() > 4 { r.class.max(1) } else { r.class };
    case.push(GK::NewGame { root: root_cmd(r), pre });
    let mut unbounded = false; // a search may be running that only a stop ends
    let mut asked = false; // a `go` was sent since the script last waited for a bestmove
    let n = rng.range(8, 30);
    for _ in 0..n {
        match rng.below(100) {
            0..=19 => case.push(GK::PosCur),
            20..=29 => {
                case.raw(format!("go depth {}", rng.range(0, max_depth_for(class))));
                asked = true;
            }
            30..=36 => {
                let polls = rng.log_uniform(1, 3_000);
                case.raw(format!("go movetime {}", movetime_for(&case, polls)));
                asked = true;
            }
            37..=40 => {
                let polls = rng.log_uniform(1, 3_000);
                let want = movetime_for(&case, polls) - 5;
                let own = rng.log_uniform(1_000, 600_000u64.min(50 * (want + 155)));
                case.push(GK::GoClock { own, own_inc: (want + 155).saturating_sub(own / 50), opp: rng.log_uniform(1, 600_000), opp_inc: rng.below(2_000) });
                asked = true;
            }
            41..=46 => {
                case.raw("go infinite");
                unbounded = true;
                asked = true;
            }
            47..=58 => {
                case.raw("stop");
                unbounded = false;
            }
            59..=68 => case.raw("isready"),
            69..=72 => {
                case.raw("ucinewgame");
                unbounded = false;
            }
            73..=76 => case.raw("show"),
            77..=79 => {
                if !unbounded {
                    case.raw("wait");
                }
            }
            80..=87 => {
                if !unbounded && asked {
                    case.push(GK::AwaitBest);
                    asked = false;
                }
            }
            88..=90 => {
                if !unbounded {
                    case.push(GK::AwaitReady);
                }
            }
            91..=94 => case.push(GK::Advance { best: rng.chance(2, 3), replies: vec![rng.next() as u32] }),
            95..=96 => {
                let o = rng.pick(ROOTS);
                if o.class != 3 {
                    case.push(GK::NewGame { root: root_cmd(o), pre: vec![] });
                }
            }
            97 => case.push(GK::AfterPolls(rng.log_uniform(1, 2_000))),
            98 => {
                // parameter mixes: a depth with a time, `infinite` with a time (no timer then), tokens the engine ignores
                let polls = rng.log_uniform(1, 3_000);
                let mt = movetime_for(&case, polls);
                match rng.below(4) {
                    0 => case.raw(format!("go depth {} movetime {}", rng.range(1, max_depth_for(class)), mt)),
                    1 => {
                        case.raw(format!("go infinite movetime {}", mt));
                        unbounded = true;
                    }
                    2 => case.raw(format!("go ponder movetime {} searchmoves e2e4 d2d4", mt)),
                    _ => case.raw(format!("go movetime {} depth {} nodes 100000 mate 3", mt, rng.range(1, max_depth_for(class)))),
                }
                asked = true;
            }
            _ => {
                if rng.chance(1, 3) {
                    // the same cheap command very many times (counts around powers of two)
                    let n = *rng.pick(&[127u32, 128, 129, 255, 256, 257, 300]);
                    let c = *rng.pick(&["isready", "ucinewgame", "stop", "uci"]);
                    for _ in 0..n {
                        case.raw(c);
                    }
                    if c == "ucinewgame" || c == "stop" {
                        unbounded = false;
                    }
                } else {
                    case.push(GK::Delay(rng.log_uniform(1_000, 20_000_000)));
                }
            }
        }
    }
    if unbounded {
        case.raw("stop");
    }
    if rng.chance(1, 2) {
        case.raw("quit");
    } else {
        case.push(GK::Close);
    }
    case
}

/// Direct-call histories: one table shared by a seeded sequence of (position, depth limit, stop poll) items.
pub fn gen_direct_history(prop: &str, seed: u64, faults: bool) -> Case {
    gen_direct_history_on(prop, seed, faults, false)
}

/// `tiny_only`: every game of the history starts from a root with little material (K+P, K+R, K+Q, K+B+N v K, mates in one
/// and two, single-reply roots ...): forced mates abound there, the table fills with mate scores and bound entries, and
/// items run deeper.
pub fn gen_direct_history_on(prop: &str, seed: u64, faults: bool, tiny_only: bool) -> Case {
    let mut rng = Rng::new(seed, 0x06);
    let mut case = Case::new(prop, if faults { "direct-table-history" } else { "direct-table-history/fault-free" }, seed, Mode::Direct);
    case.params.policy = Policy::Np;
    case.params.node_cost = 1_000;
    case.params.max_polls = 400_000;
    case.params.max_steps = 1_000_000;
    let n_games = rng.range(1, 3);
    for _ in 0..n_games {
        let (root, class) = if tiny_only {
            let names = ["KPK", "KPK-b", "KRK", "KQK", "KBNK", "mate-in-2-small", "underpromo-mate", "promo-rich", "ep-only-move-b", "ep-only-move-w", "edge-promotions", "single-reply", "single-reply-b"];
            let nm = *rng.pick(&names);
            let r = ROOTS.iter().find(|x| x.name == nm).unwrap();
            (r.fen.to_string(), 0u8)
        } else if rng.chance(1, 3) {
            let grp = rng.pick(SIBLINGS);
            let f = *rng.pick(grp);
            (f.to_string(), piece_class(&Pos::from_fen(f).unwrap()))
        } else {
            let r = rng.pick(ROOTS);
            (r.fen.to_string(), r.class)
        };
        let n_walk = rng.below(24);
        let mut line = walk(&mut rng, &root, n_walk);
        let mut at = rng.below(line.len() as u64 + 1) as usize;
        if rng.chance(1, 8) {
            let pl = rng.below(4);
            let ts = rng.range(4, 10) as usize;
            if let Some(l) = shuffle_line(&mut rng, &root, pl, ts) {
                at = l.len() - rng.below(3).min(l.len() as u64 - 1) as usize;
                line = l;
            }
        }
        let (root, class) = if rng.chance(1, 12) {
            // a perpetual-check line: forced single replies that repeat the position (root repetition filter)
            let (f, m) = *rng.pick(PERPETUALS);
            line = m.split_ascii_whitespace().map(|x| x.to_string()).collect();
            at = rng.range(3, line.len() as u64) as usize;
            (f.to_string(), 0u8)
        } else {
            (root, class)
        };
        let n_items = if tiny_only { rng.range(8, 24) } else { rng.range(2, 10) };
        for _ in 0..n_items {
            let cls = if at > 4 { class.max(1) } else { class };
            let depth = rng.range(1, max_depth_for(cls)) as u8;
            let stop_at = if faults && rng.chance(1, 3) {
                Some(if rng.chance(1, 3) { rng.below(4) } else { rng.log_uniform(1, 3_000) })
            } else {
                None
            };
            case.items.push(DItem { root: root.clone(), moves: line[..at].to_vec(), depth: Some(depth), stop_at, pre_stopped: false, fresh: false, isolated: false, sweep: None, descend: None, walks: None });
            if rng.chance(1, 4) {
                // follow the previous search into its own tree: a position the table holds an entry for
                let mut d = ditem(&root, &[], Some(rng.range(1, max_depth_for(cls)) as u8), None);
                d.descend = Some(Descend { plies: rng.range(1, 2) as u8, pick: rng.next() });
                if faults && rng.chance(1, 3) {
                    d.stop_at = Some(rng.below(40));
                }
                case.items.push(d);
                // the line continues from where it was
                case.items.push(ditem(&root, &line[..at], Some(rng.range(1, max_depth_for(cls)) as u8), None));
            }
            match rng.below(10) {
                0..=4 => at = (at + rng.range(1, 2) as usize).min(line.len()),
                5 => at = at.saturating_sub(rng.range(1, 2) as usize),
                6 => {
                    // branch: new continuation from here
                    line.truncate(at);
                    let more = walk_from(&mut rng, &root, &line, 6);
                    line.extend(more);
                }
                _ => {}
            }
        }
    }
    case
}

impl Rng {
    fn clone_below(&mut self, n: u64) -> u64 {
        self.below(n)
    }
}

pub fn walk_from(rng: &mut Rng, root: &str, pre: &[String], n: u64) -> Vec<String> {
    let mut out = vec![];
    let Some(mut p) = crate::gui::root_pos(root) else { return out };
    for m in pre {
        if !p.play(m) {
            return out;
        }
    }
    for _ in 0..n {
        let l = p.legal_moves();
        if l.is_empty() {
            break;
        }
        let m = rng.pick(&l).clone();
        p.play(&m);
        out.push(m);
    }
    out
}

/// A game line that ends in a repetition shuffle: `pre_len` random plies, then two reversible moves played back and
/// forth, `total_shuffle` plies in all (4 = back at the start, 5 = the first move again, ...). None if no reversible
/// pair was found.
pub fn shuffle_line(rng: &mut Rng, root: &str, pre_len: u64, total_shuffle: usize) -> Option<Vec<String>> {
    let mut line = walk(rng, root, pre_len);
    let mut p = crate::gui::root_pos(root)?;
    for m in &line {
        p.play(m);
    }
    let rev = |m: &str| format!("{}{}", &m[2..4], &m[0..2]);
    for _ in 0..30 {
        let l1 = p.legal_moves();
        if l1.is_empty() {
            return None;
        }
        let m1 = rng.pick(&l1).clone();
        if m1.len() != 4 {
            continue;
        }
        let mut q = p.clone();
        q.play(&m1);
        let l2 = q.legal_moves();
        if l2.is_empty() {
            continue;
        }
        let m2 = rng.pick(&l2).clone();
        if m2.len() != 4 {
            continue;
        }
        let cycle = [m1.clone(), m2.clone(), rev(&m1), rev(&m2)];
        let mut t = p.clone();
        if cycle.iter().all(|m| t.play(m)) && t.placement() == p.placement() && t.castling() == p.castling() {
            for i in 0..total_shuffle {
                line.push(cycle[i % 4].clone());
            }
            return Some(line);
        }
    }
    None
}

fn ditem(root: &str, moves: &[String], depth: Option<u8>, stop_at: Option<u64>) -> DItem {
    DItem { root: root.to_string(), moves: moves.to_vec(), depth, stop_at, pre_stopped: false, fresh: false, isolated: false, sweep: None, descend: None, walks: None }
}

fn direct_params(case: &mut Case, max_polls: u64) {
    case.params.policy = Policy::Np;
    case.params.node_cost = 1_000;
    case.params.max_polls = max_polls;
    case.params.max_steps = max_polls * 3 + 100_000;
}

// ------------------------------------------------------------------------------------------ C07
/// Enumeration of the stop instant. Families: direct sweep (every poll index of a short search, after a seeded
/// table history); GUI `stop` placed at an exact poll; timer deadline placed at an exact poll; go+stop burst;
/// self-play with a budget shorter than depth 1.
pub fn gen_c07(seed: u64, thorough: bool) -> Case {
    let mut rng = Rng::new(seed, 0x07);
    let fam = seed % 8;
    let r = rng.pick(ROOTS);
    let mut root = r.fen.to_string();
    let pre_n = if rng.chance(1, 2) { 0 } else { rng.below(8) };
    let mut pre = walk(&mut rng, &root, pre_n);
    let mut class = if pre.len() > 4 { r.class.max(1) } else { r.class };
    if rng.chance(1, 10) {
        // a forced reply that repeats the position (perpetual check): repetition filter + single-reply root
        let (f, m) = *rng.pick(PERPETUALS);
        root = f.to_string();
        pre = m.split_ascii_whitespace().map(|x| x.to_string()).collect();
        class = 0;
    }
    let depth = rng.range(1, max_depth_for(class).min(if class == 0 { 5 } else { 3 })) as u8;
    if fam <= 4 {
        let mut case = Case::new("C07", "direct-stop-sweep", seed, Mode::Direct);
        direct_params(&mut case, if thorough { 8_000_000 } else { 300_000 });
        // table history: nothing / deeper / shallower / aborted search of the same or the parent position
        match rng.below(6) {
            0 | 1 => {}
            2 => case.items.push(ditem(&root, &pre, Some(depth + 1), None)),
            3 => case.items.push(ditem(&root, &pre, Some(depth.saturating_sub(1).max(1)), None)),
            4 => {
                if class != 3 && rng.chance(1, 2) {
                    // an unlimited search of the same position stopped somewhere in a deep iteration
                    case.items.push(ditem(&root, &pre, None, Some(rng.log_uniform(100, 60_000))));
                } else {
                    case.items.push(ditem(&root, &pre, Some(depth + 1), Some(rng.log_uniform(1, 400))));
                }
            }
            _ => {
                if !pre.is_empty() {
                    case.items.push(ditem(&root, &pre[..pre.len() - 1], Some(depth + 1), None));
                } else {
                    case.items.push(ditem(&root, &pre, Some(depth), Some(rng.below(50))));
                }
            }
        }
        let mut it = ditem(&root, &pre, Some(depth), None);
        if rng.chance(1, 2) {
            // sweep a position inside the tree of an earlier, deeper search (whatever entry that search left for it)
            case.items.clear();
            case.items.push(ditem(&root, &pre, Some((depth + rng.range(1, 2) as u8).min(max_depth_for(class) as u8 + 1)), None));
            it.descend = Some(Descend { plies: rng.range(1, 2) as u8, pick: rng.next() });
            case.family = "direct-stop-sweep/table-guided".into();
        }
        it.sweep = Some(if thorough { Sweep { all_upto: 3_000, head: 200, samples: 500, seed } } else { Sweep { all_upto: 40, head: 3, samples: 20, seed } });
        case.items.push(it);
        case
    } else if fam == 5 {
        // GUI stop placed at an exact poll: the GUI and the stdin loop outrank the search
        let mut case = Case::new("C07", "session-stop-at-poll", seed, Mode::Session);
        case.params.policy = Policy::RolePrio([3, 4, 1, 0, 2]); // main, gui, unknown, search, timer
        case.params.fair = 400;
        case.params.node_cost = 10_000;
        case.params.tt_cap = 64;
        case.push(GK::NewGame { root: root_cmd_str(&root), pre });
        if rng.chance(1, 2) {
            case.push(GK::PosCur);
            case.raw(format!("go depth {}", depth));
            case.push(GK::AwaitBest);
        }
        case.push(GK::PosCur);
        match rng.below(4) {
            0 | 1 => case.raw("go infinite"),
            2 => case.raw(format!("go depth {}", depth + 2)),
            _ => {
                // a timed search stopped long before its budget is used up
                let polls = rng.log_uniform(5_000, 2_000_000);
                if rng.chance(1, 2) {
                    case.raw(format!("go movetime {}", movetime_for(&case, polls)));
                } else {
                    let want = movetime_for(&case, polls);
                    case.push(GK::GoClock { own: want * 50 + 8_000, own_inc: 0, opp: rng.log_uniform(1, 600_000), opp_inc: 0 });
                }
            }
        }
        let k = if rng.chance(1, 3) { rng.below(4) } else { rng.log_uniform(1, 2_000) };
        case.push(GK::AfterPolls(k));
        if rng.chance(1, 3) {
            // commands the engine refuses or merely answers while it searches; the stop that follows must still arrive
            for _ in 0..rng.range(1, 3) {
                match rng.below(5) {
                    0 => case.raw("go depth 1"),
                    1 => case.raw("go infinite"),
                    2 => case.push(GK::PosCur),
                    3 => case.raw("isready"),
                    _ => case.raw("show"),
                }
            }
        }
        case.raw(if rng.chance(1, 4) { "ucinewgame" } else { "stop" });
        case.push(GK::AwaitBest);
        case.raw("isready");
        case.push(GK::AwaitReady);
        case.push(GK::Advance { best: true, replies: vec![rng.next() as u32] });
        case.push(GK::PosCur);
        case.raw("go depth 1");
        case.push(GK::AwaitBest);
        case.raw("quit");
        case
    } else if fam == 6 {
        // timer deadline placed at an exact poll: node cost 1 ms, `movetime k+5` expires at poll k; the timer outranks the search
        let mut case = Case::new("C07", "session-timer-at-poll", seed, Mode::Session);
        case.params.policy = Policy::RolePrio([3, 4, 1, 0, 2]);
        case.params.fair = 400;
        case.params.node_cost = 1_000_000;
        case.params.tt_cap = 64;
        case.push(GK::NewGame { root: root_cmd_str(&root), pre });
        case.push(GK::PosCur);
        let k = if rng.chance(1, 2) { rng.below(6) } else { rng.log_uniform(1, 1_500) };
        let mt = if rng.chance(1, 4) { rng.below(6) } else { k + 5 };
        case.raw(format!("go movetime {}", mt));
        case.push(GK::AwaitBest);
        case.raw("isready");
        case.push(GK::AwaitReady);
        case.raw("quit");
        case
    } else {
        if rng.chance(1, 2) {
            // go immediately followed by stop, under any policy
            let mut case = Case::new("C07", "session-go-stop-burst", seed, Mode::Session);
            swarm_params(&mut rng, &mut case);
            case.push(GK::NewGame { root: root_cmd_str(&root), pre });
            case.push(GK::PosCur);
            case.raw(if rng.chance(1, 2) { "go infinite".to_string() } else { format!("go depth {}", depth + 1) });
            if rng.chance(1, 3) {
                for _ in 0..rng.range(1, 2) {
                    match rng.below(4) {
                        0 => case.raw("go depth 1"),
                        1 => case.push(GK::PosCur),
                        2 => case.raw("isready"),
                        _ => case.raw("go movetime 50"),
                    }
                }
            }
            case.raw(if rng.chance(1, 3) { "ucinewgame" } else { "stop" });
            case.push(GK::AwaitBest);
            case.raw("isready");
            case.push(GK::AwaitReady);
            case.raw("quit");
            case
        } else {
            // self-play with a thinking time shorter than one iteration
            let mut case = Case::new("C07", "selfplay-short-budget", seed, Mode::Autoplay);
            case.params.policy = Policy::Rw(50);
            case.params.fair = *rng.pick(&[2u32, 8, 64]);
            case.params.node_cost = 1_000_000;
            case.params.max_polls = 3_000;
            case.params.max_steps = 60_000;
            case.autoplay_ms = rng.range(0, 12);
            case
        }
    }
}

fn root_cmd_str(fen: &str) -> String {
    if fen == "startpos" {
        "startpos".into()
    } else {
        format!("fen {}", fen)
    }
}

// ------------------------------------------------------------------------------------------ C08
pub fn gen_c08(seed: u64, thorough: bool) -> Case {
    let mut rng = Rng::new(seed, 0x08);
    let fam = seed % 8;
    let tiny: Vec<&Root> = ROOTS.iter().filter(|r| r.class == 0).collect();
    if fam <= 2 {
        // (a) direct: plant an exact root entry of depth D, then ask for depth N (<, =, > D); never a stop
        let mut case = Case::new("C08", "direct-depth-after-deeper-entry", seed, Mode::Direct);
        direct_params(&mut case, 400_000);
        let r = rng.pick(ROOTS);
        let root = r.fen.to_string();
        let pre_n = if rng.chance(1, 2) { 0 } else { rng.below(8) };
        let pre = walk(&mut rng, &root, pre_n);
        let mut pre = pre;
        if rng.chance(1, 5) {
            // the position comes with a repetition shuffle of 4..10 plies in its history (root repetition filter)
            let pl = rng.below(3);
            let ts = rng.range(4, 10) as usize;
            if let Some(l) = shuffle_line(&mut rng, &root, pl, ts) {
                pre = l;
                case.family = "direct-depth-after-deeper-entry/shuffle-history".into();
            }
        }
        let class = if pre.len() > 4 { r.class.max(1) } else { r.class };
        let dmax = max_depth_for(class);
        let d = rng.range(1, dmax) as u8;
        let n = rng.range(1, dmax) as u8;
        if rng.chance(1, 5) {
            // the deeper entry comes from a search that was stopped after completing some iterations
            case.items.push(ditem(&root, &pre, None, Some(rng.log_uniform(50, 20_000))));
        } else {
            case.items.push(ditem(&root, &pre, Some(d), None));
        }
        match rng.below(4) {
            0 => {}
            1 => {
                // unrelated search in between
                let o = rng.pick(ROOTS);
                case.items.push(ditem(o.fen, &[], Some(rng.range(1, max_depth_for(o.class)) as u8), None));
            }
            _ => {}
        }
        if rng.chance(1, 3) {
            // a position inside the first search's tree: whatever entry (exact or bound) that search left for it
            let mut it = ditem(&root, &[], Some(n), None);
            it.descend = Some(Descend { plies: rng.range(1, 2) as u8, pick: rng.next() });
            case.items.push(it);
            case.family = "direct-depth-after-deeper-entry/table-guided".into();
        } else if rng.chance(1, 4) && pre.len() >= 1 {
            // two plies later down the line the first search examined
            let more = walk_from(&mut rng, &root, &pre, 2);
            let mut line = pre.clone();
            line.extend(more);
            case.items.push(ditem(&root, &line, Some(n), None));
        } else {
            case.items.push(ditem(&root, &pre, Some(n), None));
        }
        if rng.chance(1, 3) {
            case.items.push(ditem(&root, &pre, Some(rng.range(1, dmax) as u8), None));
        }
        case
    } else if fam == 3 {
        // (a') the same through the real uci.rs: go depth D, then go depth N on the same position, waits only
        let mut case = Case::new("C08", "session-depth-after-deeper-entry", seed, Mode::Session);
        swarm_params(&mut rng, &mut case);
        let r = rng.pick(ROOTS);
        let dmax = max_depth_for(r.class);
        case.push(GK::NewGame { root: root_cmd(r), pre: vec![] });
        let pre_n = rng.below(3);
        let pre = walk(&mut rng, r.fen, pre_n);
        case.steps.clear();
        case.push(GK::NewGame { root: root_cmd(r), pre });
        for _ in 0..rng.range(2, 4) {
            case.push(GK::PosCur);
            if rng.chance(1, 3) {
                // a depth limit together with a generous time budget: the limit is what ends the search
                let polls = rng.log_uniform(5_000, 500_000);
                case.raw(format!("go depth {} movetime {}", rng.range(1, dmax), movetime_for(&case, polls)));
            } else {
                case.raw(format!("go depth {}", rng.range(1, dmax)));
            }
            if rng.chance(1, 2) {
                case.raw("wait");
            }
            case.push(GK::AwaitBest);
            match rng.below(4) {
                0 => case.push(GK::Advance { best: true, replies: vec![rng.next() as u32] }),
                // back at the same position through a repetition shuffle that starts with the move just announced
                1 => case.push(GK::RepeatAfterBest),
                _ => {}
            }
        }
        case.raw("quit");
        case
    } else if fam == 4 {
        // large depth limits on tiny roots
        let mut case = Case::new("C08", "direct-large-depth-limit", seed, Mode::Direct);
        let cap = if thorough { 6_000_000 } else { 1_600_000 };
        direct_params(&mut case, cap);
        let n = *rng.pick(&[0u8, 0, 8, 16, 31, 32, 33, 34, 35, 40, 63, 64, 65, 66, 100, 127, 128, 200, 254, 255]);
        // limits beyond 40 are only reachable within the budget on bare kings
        let bare: Vec<&Root> = ROOTS.iter().filter(|r| r.name.starts_with("KvK")).collect();
        let r = if n > 40 { *rng.pick(&bare) } else { *rng.pick(&tiny) };
        case.items.push(ditem(r.fen, &[], Some(n), None));
        case
    } else if fam <= 6 {
        // (b) unlimited search on a tiny root left running for a seeded number of polls, then stopped
        let mut case = Case::new("C08", "direct-unlimited-run-length", seed, Mode::Direct);
        let cap: u64 = if thorough { 20_000_000 } else { 500_000 };
        direct_params(&mut case, cap + 10_000);
        let r = rng.pick(&tiny);
        let pre_n = rng.below(6);
        let pre = walk(&mut rng, r.fen, pre_n);
        let run = rng.log_uniform(2_000, cap);
        case.items.push(ditem(r.fen, &pre, None, Some(run)));
        // afterwards the table must still serve an ordinary search
        case.items.push(ditem(r.fen, &pre, Some(2), None));
        case
    } else {
        // (b') the same through uci.rs: go infinite ... stop, then isready and another go
        let mut case = Case::new("C08", "session-unlimited-run-length", seed, Mode::Session);
        swarm_params(&mut rng, &mut case);
        case.params.node_cost = 1_000;
        case.params.oversleep_max = 0;
        let cap: u64 = if thorough { 4_000_000 } else { 200_000 };
        case.params.max_polls = cap + 20_000;
        case.params.max_steps = cap * 3;
        if rng.chance(1, 2) {
            // a depth-limited search first, then - without `ucinewgame` - an unlimited one on a position that gives it
            // something to do: the earlier limit is gone, the search goes on until it is stopped
            let r0 = rng.pick(ROOTS);
            let n0 = rng.below(5);
            let pre0 = walk(&mut rng, &root_cmd(r0), n0);
            case.push(GK::NewGame { root: root_cmd(r0), pre: pre0 });
            case.push(GK::PosCur);
            case.raw(format!("go depth {}", rng.range(1, max_depth_for(r0.class).min(3))));
            case.push(GK::AwaitBest);
            let nm = *rng.pick(&["startpos", "kiwipete", "italian", "sicilian-b", "perft4", "perft5", "perft6", "rook-endgame", "minor-endgame"]);
            let r1 = ROOTS.iter().find(|x| x.name == nm).unwrap();
            if rng.chance(2, 3) {
                let n1 = rng.below(6);
                let pre1 = walk(&mut rng, &root_cmd(r1), n1);
                case.push(GK::NewGame { root: root_cmd(r1), pre: pre1 });
            } else {
                case.push(GK::Advance { best: true, replies: vec![rng.next() as u32] });
            }
            case.push(GK::PosCur);
            case.raw(if rng.chance(1, 4) { "go" } else { "go infinite" });
            case.push(GK::AfterPolls(rng.log_uniform(500, 20_000)));
            case.raw("stop");
            case.push(GK::AwaitBest);
            case.raw("isready");
            case.push(GK::AwaitReady);
            case.raw("quit");
            return case;
        }
        let r = rng.pick(&tiny);
        case.push(GK::NewGame { root: root_cmd(r), pre: vec![] });
        case.push(GK::PosCur);
        case.raw("go infinite");
        case.push(GK::AfterPolls(rng.log_uniform(2_000, cap)));
        case.raw("stop");
        case.push(GK::AwaitBest);
        case.raw("isready");
        case.push(GK::AwaitReady);
        case.push(GK::PosCur);
        case.raw("go depth 2");
        case.push(GK::AwaitBest);
        case.raw("quit");
        case
    }
}

// ------------------------------------------------------------------------------------------ C13
const BOUNDARY_MS: &[u64] = &[0, 1, 4, 5, 6, 10, 149, 150, 151, 155, 156, 7_499, 7_500, 7_501, 7_750, 10_000];

pub fn gen_c13(seed: u64, _thorough: bool) -> Case {
    let mut rng = Rng::new(seed, 0x13);
    let fam = seed % 8;
    let mut case = Case::new("C13", "", seed, Mode::Session);
    // roots whose search does not end by itself within the budget, and (1 in 5) roots that do
    if rng.chance(1, 4) {
        // GUIs with classical time controls add `movestogo N` to the clock parameters
        case.tags.push(format!("movestogo={}", *rng.pick(&[1u32, 1, 2, 5, 10, 20, 40])));
    }
    if Rng::new(seed, 0x5ea).chance(1, 6) {
        // analysis GUIs restrict the root moves: `go searchmoves m1 m2 wtime ...` (tokens before the clock fields)
        case.tags.push("searchmoves".into());
    }
    let r = if rng.chance(1, 5) {
        *rng.pick(&["single-reply", "single-reply-b", "mate-in-1", "mate-in-1-b", "mated", "stalemated"])
    } else {
        *rng.pick(&["startpos", "kiwipete", "perft4", "perft4-mirror", "perft5", "perft6", "italian", "sicilian-b", "rook-endgame", "castle-only-b", "KPK-b", "KBNK"])
    };
    let root = ROOTS.iter().find(|x| x.name == r).unwrap();
    let pre_n = if rng.chance(1, 2) { 0 } else { rng.below(5) };
    let pre = walk(&mut rng, root.fen, pre_n);
    case.push(GK::NewGame { root: root_cmd(root), pre });
    let val = |rng: &mut Rng, hi: u64| -> u64 {
        match rng.below(4) {
            0 => *rng.pick(BOUNDARY_MS),
            1 => 0,
            _ => rng.log_uniform(1, hi),
        }
    };
    if fam == 7 {
        // low clocks shorten, never extend: two clocks W1 <= W2 with the same increment, same position
        case.family = "monotone-pairs".into();
        case.tags.push("mono".into());
        case.params.policy = Policy::Np;
        case.params.node_cost = 1_000_000;
        let inc = if rng.chance(1, 2) { 0 } else { val(&mut rng, 20_000) };
        let w1 = val(&mut rng, 100_000);
        let w2 = w1 + val(&mut rng, 100_000);
        let opp = val(&mut rng, 3_600_000);
        let oinc = val(&mut rng, 10_000);
        for w in [w1, w2] {
            case.push(GK::PosCur);
            case.push(GK::GoClock { own: w, own_inc: inc, opp, opp_inc: oinc });
            case.raw("stop");
            case.push(GK::AwaitBest);
        }
        case.raw("quit");
        return case;
    }
    if fam == 4 && seed % 16 >= 8 {
        // a time budget together with a depth limit the search cannot reach within the budget
        case.family = "depth-limit-beyond-the-budget".into();
        case.params.policy = match rng.below(3) {
            0 => Policy::Np,
            1 => Policy::Rw(50),
            _ => Policy::Pct(2),
        };
        case.params.fair = *rng.pick(&[2u32, 8, 64]);
        case.params.node_cost = *rng.pick(&[100_000u64, 1_000_000]);
        case.params.tt_cap = 1024;
        case.params.max_polls = 60_000;
        case.push(GK::PosCur);
        let short = rng.log_uniform(1, 300);
        let d = rng.range(4, 9);
        if rng.chance(1, 2) {
            case.raw(format!("go depth {} movetime {}", d, movetime_for(&case, short)));
        } else {
            let want = movetime_for(&case, short) - 5;
            let own = rng.log_uniform(1_000, 600_000u64.min(50 * (want + 155)));
            case.push(GK::GoClockDepth { own, own_inc: (want + 155).saturating_sub(own / 50), opp: rng.log_uniform(1, 600_000), opp_inc: 0, depth: d as u32 });
        }
        case.push(GK::AwaitBest);
        case.raw("quit");
        return case;
    }
    if fam == 5 && seed % 16 < 8 {
        // a timed search that ends long before its budget (stop, depth limit, single reply), then the timed search
        // under test: it needs a timer of its own, and the sleeping timer of the first one must not matter
        case.family = "after-early-ended-timed-search".into();
        case.params.policy = match rng.below(3) {
            0 => Policy::Np,
            1 => Policy::Rw(50),
            _ => Policy::Pct(2),
        };
        case.params.fair = *rng.pick(&[2u32, 8, 64]);
        case.params.node_cost = *rng.pick(&[100_000u64, 1_000_000]);
        case.params.tt_cap = 1024;
        case.params.max_polls = 100_000;
        case.push(GK::PosCur);
        let long = rng.log_uniform(2_000, 40_000);
        match rng.below(3) {
            0 => {
                case.raw(format!("go movetime {}", movetime_for(&case, long)));
                case.push(GK::AfterPolls(rng.below(50)));
                case.raw("stop");
            }
            1 => case.raw(format!("go depth {} movetime {}", rng.range(1, 3), movetime_for(&case, long))),
            _ => {
                case.push(GK::GoClock { own: movetime_for(&case, long) * 50 + 8_000, own_inc: 0, opp: 60_000, opp_inc: 0 });
                case.push(GK::AfterPolls(rng.below(50)));
                case.raw(if rng.chance(1, 3) { "ucinewgame" } else { "stop" });
            }
        }
        case.push(GK::AwaitBest);
        case.push(GK::Advance { best: true, replies: vec![] });
        case.push(GK::PosCur);
        let short = rng.log_uniform(5, 600);
        if rng.chance(1, 2) {
            case.raw(format!("go movetime {}", movetime_for(&case, short)));
        } else {
            let want = movetime_for(&case, short) - 5;
            let own = rng.log_uniform(1_000, 600_000u64.min(50 * (want + 155)));
            case.push(GK::GoClock { own, own_inc: (want + 155).saturating_sub(own / 50), opp: rng.log_uniform(1, 600_000), opp_inc: 0 });
        }
        case.push(GK::AwaitBest);
        case.raw("quit");
        return case;
    }
    if fam == 6 {
        // a timed search of a position the table already knows, reached again by a repetition shuffle:
        // the stop must still be honoured when the first iteration starts from a cached depth
        case.family = "warm-table-and-shuffle".into();
        case.params.policy = match rng.below(3) {
            0 => Policy::Np,
            1 => Policy::Rw(50),
            _ => Policy::Pct(2),
        };
        case.params.fair = *rng.pick(&[2u32, 8, 64]);
        case.params.node_cost = *rng.pick(&[50_000u64, 100_000, 1_000_000]);
        case.params.tt_cap = 1024;
        case.params.max_polls = 400_000;
        case.params.max_steps = 1_500_000;
        case.steps.clear();
        let r2 = *rng.pick(&["startpos", "italian", "sicilian-b", "kiwipete", "perft6", "castle-only", "rook-endgame", "minor-endgame", "KBNK", "knights-tour"]);
        let root2 = ROOTS.iter().find(|x| x.name == r2).unwrap();
        let n2 = rng.range(1, 4);
        let pre2 = walk(&mut rng, root2.fen, n2);
        case.push(GK::NewGame { root: root_cmd(root2), pre: pre2 });
        case.push(GK::PosCur);
        case.raw(format!("go depth {}", rng.range(2, max_depth_for(root2.class).max(3))));
        case.push(GK::AwaitBest);
        if rng.chance(3, 4) {
            case.push(GK::RepeatAfterBest);
        }
        case.push(GK::PosCur);
        let polls = if rng.chance(1, 2) { rng.below(6) } else { rng.log_uniform(1, 300) };
        if rng.chance(1, 2) {
            case.raw(format!("go movetime {}", movetime_for(&case, polls)));
        } else {
            let want = movetime_for(&case, polls) - 5;
            let own = rng.log_uniform(1_000, 600_000u64.min(50 * (want + 155)));
            let inc = (want + 155).saturating_sub(own / 50);
            case.push(GK::GoClock { own, own_inc: inc, opp: rng.log_uniform(1, 600_000), opp_inc: 0 });
        }
        case.push(GK::AwaitBest);
        case.raw("quit");
        return case;
    }
    let tight = fam <= 3;
    if tight {
        // the simulator's own slack stays below the engine's 5 ms allowance
        case.family = "tight".into();
        case.tags.push("tight".into());
        case.params.policy = match rng.below(3) {
            0 => Policy::Np,
            1 => Policy::Rw(50),
            _ => Policy::Rw(300),
        };
        case.params.fair = 2;
        case.params.node_cost = *rng.pick(&[20_000u64, 50_000, 100_000]);
        case.params.oversleep_max = *rng.pick(&[0u64, 1_000_000, 3_000_000]);
        case.params.tt_cap = 1024;
        case.params.max_polls = 400_000;
        case.params.max_steps = 1_500_000;
    } else {
        case.family = "wide".into();
        swarm_params(&mut rng, &mut case);
    }
    if rng.chance(2, 5) {
        // the table is not empty: an earlier search of another game, of this position, or of a neighbour
        case.family.push_str("/warm-table");
        match rng.below(3) {
            0 => {
                let o = rng.pick(ROOTS);
                case.raw(format!("position {}", root_cmd(o)));
                case.raw(format!("go depth {}", rng.range(1, max_depth_for(o.class).min(3))));
                case.push(GK::AwaitBest);
            }
            1 => {
                case.push(GK::PosCur);
                case.raw(format!("go depth {}", rng.range(1, 3)));
                case.push(GK::AwaitBest);
            }
            _ => {
                case.push(GK::PosCur);
                case.raw(format!("go depth {}", rng.range(1, 3)));
                case.push(GK::AwaitBest);
                case.push(GK::Advance { best: true, replies: vec![rng.next() as u32] });
            }
        }
    }
    case.push(GK::PosCur);
    // the budget the engine should arrive at decides the node cost in the wide regime
    let budget_ms: u64;
    if rng.chance(2, 5) {
        let m = if tight { val(&mut rng, 1_500).min(1_500) } else { val(&mut rng, 3_600_000) };
        budget_ms = m.saturating_sub(5);
        case.raw(format!("go movetime {}", m));
    } else {
        let hi = if tight { 40_000 } else { 3_600_000 };
        let own = if tight { val(&mut rng, hi).min(hi) } else { val(&mut rng, hi) };
        let inc = if rng.chance(1, 2) { 0 } else if tight { val(&mut rng, 1_000).min(1_000) } else { val(&mut rng, 60_000) };
        let opp = val(&mut rng, 3_600_000);
        let oinc = if rng.chance(1, 2) { 0 } else { val(&mut rng, 60_000) };
        budget_ms = (own / 50 + inc).saturating_sub(155).min(own);
        case.push(GK::GoClock { own, own_inc: inc, opp, opp_inc: oinc });
    }
    if !tight {
        let target_polls = rng.log_uniform(10, 3_000);
        case.params.node_cost = (budget_ms.saturating_mul(1_000_000) / target_polls).clamp(1_000, 2_000_000_000);
        case.params.max_polls = 60_000;
    }
    if rng.chance(1, 4) {
        case.raw("isready");
    }
    case.push(GK::AwaitBest);
    case.raw("quit");
    case
}

/// C13 with values at the edges of the integer types: the budget arithmetic must neither wrap nor trap, and the
/// thinking time stays within the clock. The search is stopped by the GUI after a few polls.
pub fn gen_c13_extreme(seed: u64) -> Case {
    let mut rng = Rng::new(seed, 0x13e);
    let mut case = Case::new("C13", "extreme-values", seed, Mode::Session);
    case.params.policy = Policy::Np;
    case.params.node_cost = 1_000_000;
    case.params.fair = 8;
    let big: [u64; 16] = [
        i32::MAX as u64 - 1,
        i32::MAX as u64,
        i32::MAX as u64 + 1,
        2_592_000_000,
        u32::MAX as u64 - 1,
        u32::MAX as u64,
        u32::MAX as u64 + 1,
        1 << 53,
        (1 << 53) + 1,
        i64::MAX as u64,
        i64::MAX as u64 + 1,
        u64::MAX / 50,
        u64::MAX - 1,
        u64::MAX,
        65_535,
        65_536,
    ];
    let val = |rng: &mut Rng| -> u64 {
        match rng.below(3) {
            0 => *rng.pick(&big),
            1 => *rng.pick(BOUNDARY_MS),
            _ => rng.log_uniform(1, 3_600_000),
        }
    };
    let r = *rng.pick(&["startpos", "sicilian-b", "rook-endgame", "castle-only-b"]);
    let root = ROOTS.iter().find(|x| x.name == r).unwrap();
    case.push(GK::NewGame { root: root_cmd(root), pre: vec![] });
    if rng.chance(1, 2) {
        // huge values on the other side's clock or on an increment only: the own clock is small and binds, so the
        // answer must come by itself within it - nobody sends `stop`
        case.family = "extreme-values/own-clock-small".into();
        case.params.node_cost = 100_000;
        case.params.max_polls = 60_000;
        case.params.max_steps = 300_000;
        for _ in 0..rng.range(1, 2) {
            case.push(GK::PosCur);
            let own = rng.log_uniform(1, 3_000);
            let own_inc = if rng.chance(1, 4) { *rng.pick(&big) } else { rng.log_uniform(1, 200) };
            let opp = if rng.chance(3, 4) { *rng.pick(&big) } else { rng.log_uniform(1, 3_600_000) };
            let opp_inc = if rng.chance(1, 2) { *rng.pick(&big) } else { 0 };
            case.push(GK::GoClock { own, own_inc, opp, opp_inc });
            case.push(GK::AwaitBest);
        }
        case.raw("isready");
        case.push(GK::AwaitReady);
        case.raw("quit");
        return case;
    }
    for _ in 0..rng.range(1, 3) {
        case.push(GK::PosCur);
        if rng.chance(1, 3) {
            case.raw(format!("go movetime {}", val(&mut rng)));
        } else {
            case.push(GK::GoClock { own: val(&mut rng), own_inc: val(&mut rng), opp: val(&mut rng), opp_inc: val(&mut rng) });
        }
        case.push(GK::AfterPolls(rng.range(1, 40)));
        case.raw("stop");
        case.push(GK::AwaitBest);
    }
    case.raw("isready");
    case.push(GK::AwaitReady);
    case.raw("quit");
    case
}

// ------------------------------------------------------------------------------------------ C19
/// non-king material in centipawns (P 100, N/B 300, R 500, Q 900), both sides
fn material(p: &Pos) -> u32 {
    p.placement()
        .bytes()
        .map(|c| match c.to_ascii_lowercase() {
            b'p' => 100,
            b'n' | b'b' => 300,
            b'r' => 500,
            b'q' => 900,
            _ => 0,
        })
        .sum()
}

/// A (root, moves) pair whose last move is a capture that takes the material from above 3150 to below 2850 - the
/// engine switches its evaluation to the endgame below 3000, piece-square terms included. Seeded walks that prefer
/// captures, from corpus roots with 3150..4600 of material.
pub fn phase_crossing_line(rng: &mut Rng) -> Option<(String, Vec<String>)> {
    let mids: Vec<&Root> = ROOTS.iter().filter(|r| r.class != 3).filter(|r| crate::gui::root_pos(&root_cmd(r)).map_or(false, |p| (3150..=4600).contains(&material(&p)))).collect();
    if mids.is_empty() {
        return None;
    }
    for _ in 0..60 {
        let r = *rng.pick(&mids);
        let root = root_cmd(r);
        let mut p = crate::gui::root_pos(&root)?;
        let mut line: Vec<String> = vec![];
        for _ in 0..40 {
            let l = p.legal_moves();
            if l.is_empty() {
                break;
            }
            let before = material(&p);
            let caps: Vec<&String> = l
                .iter()
                .filter(|m| {
                    let mut q = p.clone();
                    q.play(m) && material(&q) < before
                })
                .collect();
            let m = if !caps.is_empty() && rng.chance(2, 3) { (*rng.pick(&caps)).clone() } else { rng.pick(&l).clone() };
            p.play(&m);
            line.push(m);
            let after = material(&p);
            if before >= 3150 && after <= 2850 && !p.legal_moves().is_empty() {
                return Some((root, line));
            }
            if after < 3150 {
                break;
            }
        }
    }
    None
}

/// tags carry the item: c19root=<root cmd> c19pre=<moves> c19depth=<n>
pub fn gen_c19(seed: u64, _thorough: bool) -> Case {
    // 8 consecutive seeds share one item (same root/pre/depth) and differ in the perturbation
    let item = seed / 8;
    let pert = seed % 8;
    let mut irng = Rng::new(item, 0x19);
    let r = irng.pick(ROOTS);
    let root = root_cmd(r);
    let pre_n = if irng.chance(1, 2) { 0 } else { irng.below(10) };
    let mut pre = walk(&mut irng, &root, pre_n);
    let mut root = root;
    let mut class = if pre.len() > 4 { r.class.max(1) } else { r.class };
    if item % 5 == 2 {
        // the item's move list ends in the capture that takes the material below the engine's endgame threshold: state
        // that is derived from the game record move by move (phase, piece-square tables) is at its most fragile there
        if let Some((rt, line)) = phase_crossing_line(&mut irng) {
            root = rt;
            pre = line;
            class = 1;
        }
    }
    let depth = if irng.chance(1, 4) && class != 3 { irng.range(4, 5) } else { irng.range(1, max_depth_for(class).min(4)) };
    let mut rng = Rng::new(seed, 0x1919);
    let mut case = Case::new("C19", "", seed, Mode::Session);
    case.tags.push(format!("c19root={}", root));
    case.tags.push(format!("c19pre={}", pre.join(" ")));
    case.tags.push(format!("c19depth={}", depth));
    case.tags.push(format!("c19item={}", item));
    match pert {
        0 => {
            case.family = "baseline-again".into();
            case.params.policy = Policy::Np;
        }
        1 | 2 => {
            case.family = "other-schedule-and-clock".into();
            swarm_params(&mut rng, &mut case);
        }
        3 => {
            case.family = "pings-during-search".into();
            swarm_params(&mut rng, &mut case);
        }
        _ => {
            case.family = "prior-history-then-ucinewgame".into();
            swarm_params(&mut rng, &mut case);
        }
    }
    if pert == 4 && item % 3 == 0 {
        // very many searches before the reset (counts around powers of two), the last of them of the item's own
        // position and deeper than the item asks for
        case.family = "many-searches-then-ucinewgame".into();
        case.params.policy = Policy::Np;
        case.params.node_cost = 10_000;
        case.params.tt_cap = 1024;
        case.params.max_polls = 2_000_000;
        case.params.max_steps = 8_000_000;
        let n = *rng.pick(&[127u64, 128, 129, 255, 256, 257, 256, 512]);
        let fill = rng.pick(ROOTS);
        let fill_root = if fill.class == 3 { "startpos".to_string() } else { root_cmd(fill) };
        case.push(GK::NewGame { root: fill_root, pre: vec![] });
        for k in 0..n - 1 {
            case.push(GK::PosCur);
            case.raw("go depth 1");
            case.push(GK::AwaitBest);
            if k % 3 == 2 {
                case.push(GK::Advance { best: true, replies: vec![] });
            }
        }
        case.push(GK::NewGame { root: root.clone(), pre: pre.clone() });
        case.push(GK::PosCur);
        case.raw(format!("go depth {}", depth + 2));
        case.push(GK::AwaitBest);
        case.raw("ucinewgame");
    } else if pert == 5 {
        // deeper searches on both sides of the reset: state that only a deep search builds up (ordering heuristics) must not
        // survive `ucinewgame` either; the new game may be longer or shorter than the old one
        case.family = "deep-prior-history-then-ucinewgame".into();
        case.params.tt_cap = 1024;
        let mids = ["startpos", "italian", "sicilian-b", "rook-endgame", "castle-only", "minor-endgame", "perft3", "KBNK", "pawn-wall"];
        let hn = *rng.pick(&mids);
        let hr = ROOTS.iter().find(|x| x.name == hn).unwrap();
        let hl = rng.below(4);
        let hpre = if rng.chance(1, 2) { pre.iter().take(hl as usize).cloned().collect() } else { walk(&mut rng, &root_cmd(hr), hl) };
        let hroot = if rng.chance(1, 2) { root.clone() } else { root_cmd(hr) };
        let hpre = if hroot == root { hpre } else { walk(&mut rng, &hroot, hl) };
        case.push(GK::NewGame { root: hroot, pre: hpre });
        for _ in 0..rng.range(1, 2) {
            case.push(GK::PosCur);
            case.raw(format!("go depth {}", rng.range(4, 6)));
            case.push(GK::AwaitBest);
            case.push(GK::Advance { best: true, replies: vec![rng.next() as u32] });
        }
        case.raw("ucinewgame");
    } else if pert == 6 {
        // a timed search that is stopped long before its budget: the sleeping timer of that search wakes up in the middle
        // of the item's search and must not touch it
        case.family = "stale-timer-fires-during-search".into();
        case.params.oversleep_max = 0;
        let (hroot, hpre) = if rng.chance(1, 2) { (root.clone(), pre.clone()) } else { let o = rng.pick(ROOTS); (root_cmd(o), vec![]) };
        case.push(GK::NewGame { root: hroot, pre: hpre });
        case.push(GK::PosCur);
        let later = rng.log_uniform(5, 1_500);
        case.raw(format!("go movetime {}", movetime_for(&case, later)));
        match rng.below(3) {
            0 => {}
            1 => case.push(GK::AfterPolls(rng.below(5))),
            _ => case.push(GK::AfterPolls(rng.log_uniform(1, later.max(2) / 2 + 1))),
        }
        case.raw(if rng.chance(1, 4) { "ucinewgame" } else { "stop" });
        case.push(GK::AwaitBest);
        // C19 speaks of a fresh engine or of the state right after `ucinewgame`
        case.raw("ucinewgame");
    } else if pert == 7 {
        // `ucinewgame` arriving at the instant the timer of a timed search of the same position fires:
        // the reset must not lose the race against a search thread that is still winding down
        case.family = "ucinewgame-races-timer".into();
        case.params.node_cost = *rng.pick(&[100_000u64, 1_000_000]);
        case.params.oversleep_max = 0;
        let budget = rng.log_uniform(30, 3_000);
        let mt = movetime_for(&case, budget);
        let d_ns = (mt - 5) * 1_000_000;
        let nc = case.params.node_cost as i64;
        let jitter = *rng.pick(&[-2i64, -1, 0, 0, 0, 0, 1, 2, 5]) * nc;
        case.push(GK::NewGame { root: root.clone(), pre: pre.clone() });
        case.push(GK::PosCur);
        case.raw(format!("go movetime {}", mt));
        case.push(GK::Delay((d_ns as i64 + jitter).max(0) as u64));
        case.raw("ucinewgame");
        case.push(GK::AwaitBest);
        if rng.chance(1, 2) {
            case.push(GK::Delay(rng.log_uniform(1, 5_000_000)));
        }
    } else if pert >= 4 {
        // arbitrary prior history: other games, aborted and timed searches, possibly the same position
        let games = rng.range(1, 2);
        for _ in 0..games {
            let (hroot, hclass) = if rng.chance(1, 3) { (root.clone(), class) } else { let o = rng.pick(ROOTS); (root_cmd(o), o.class) };
            let n = rng.below(6);
            let hpre = if hroot == root && rng.chance(1, 2) { pre.clone() } else { walk(&mut rng, &hroot, n) };
            case.push(GK::NewGame { root: hroot, pre: hpre });
            for _ in 0..rng.range(1, 3) {
                case.push(GK::PosCur);
                emit_go(&mut rng, &mut case, hclass, true);
                case.push(GK::Advance { best: true, replies: vec![rng.next() as u32] });
            }
        }
        case.raw("ucinewgame");
    }
    if pert >= 4 && rng.chance(1, 2) {
        // commands between the reset and the new game that must not matter: refused or idle ones
        for _ in 0..rng.range(1, 3) {
            case.raw(*rng.pick(&["go depth 2", "go movetime 20", "stop", "isready", "show", "wait", "go infinite", "uci"]));
        }
        // let the engine answer them before the new game is sent (a GUI does not wait for a move after an `error:` line)
        case.raw("isready");
        case.push(GK::AwaitReady);
    }
    case.push(GK::NewGame { root: root.clone(), pre: pre.clone() });
    case.push(GK::PosCur);
    if pert >= 2 && rng.chance(1, 4) {
        // commands between `position` and `go` that only look at the engine: the position asked about is still the same
        for _ in 0..rng.range(1, 2) {
            case.raw(*rng.pick(&["show", "isready", "d", "stop", "wait"]));
        }
        if rng.chance(1, 2) {
            case.push(GK::PosCur);
        }
    }
    case.raw(format!("go depth {}", depth));
    case.tags.push(format!("c19go={}", case.steps.len()));
    if pert == 3 {
        for _ in 0..rng.range(1, 3) {
            case.push(GK::AfterPolls(rng.log_uniform(1, 300)));
            case.raw(if rng.chance(1, 4) { "show" } else { "isready" });
        }
    }
    if rng.chance(1, 2) {
        case.raw("wait");
    }
    case.push(GK::AwaitBest);
    case.raw("quit");
    case
}

/// the fresh-engine, non-preemptive reference run of a C19 case's item
pub fn c19_baseline(case: &Case) -> Option<Case> {
    let get = |k: &str| case.tags.iter().find_map(|t| t.strip_prefix(k).map(|s| s.to_string()));
    let root = get("c19root=")?;
    let pre: Vec<String> = get("c19pre=")?.split_ascii_whitespace().map(|s| s.to_string()).collect();
    let depth = get("c19depth=")?;
    let mut b = Case::new("C19", "baseline", 0, Mode::Session);
    b.params.policy = Policy::Np;
    b.params.fair = 64;
    b.params.node_cost = 100_000;
    b.params.tt_cap = 1024;
    b.plan = crate::verif_shim::sched::Plan::Gen { seed: 0 };
    b.push(GK::NewGame { root, pre });
    b.push(GK::PosCur);
    b.raw(format!("go depth {}", depth));
    b.tags.push(format!("c19go={}", b.steps.len()));
    b.raw("wait");
    b.push(GK::AwaitBest);
    b.raw("quit");
    Some(b)
}

// ------------------------------------------------------------------------------------------ C15
fn long_walk(rng: &mut Rng, root: &str, n: u64) -> Vec<String> {
    // a long legal game on tiny material; avoids captures where it can so that the game does not die out
    let mut out = vec![];
    let Some(mut p) = crate::gui::root_pos(root) else { return out };
    for _ in 0..n {
        let l = p.legal_moves();
        if l.is_empty() {
            break;
        }
        let mut pick = None;
        for _ in 0..4 {
            let m = rng.pick(&l).clone();
            let mut q = p.clone();
            q.play(&m);
            if q.piece_count() == p.piece_count() && !q.legal_moves().is_empty() {
                pick = Some(m);
                break;
            }
        }
        let m = pick.unwrap_or_else(|| rng.pick(&l).clone());
        p.play(&m);
        out.push(m);
    }
    out
}

pub fn gen_c15(seed: u64, thorough: bool) -> Case {
    let mut rng = Rng::new(seed, 0x15);
    let fam = seed % 8;
    let tiny = ["KvK", "KvK-b", "KPK", "KRK", "KQK", "KBNK", "knights-tour", "pawn-wall", "minor-endgame", "fortress", "fortress-b"];
    if seed % 16 == 3 {
        // one `position`, then very many `go`s without a new `position` in between, most of them aborted after a few
        // polls (by `stop` or by a tiny time budget): whatever an aborted search leaves behind in state that survives
        // the command - the game record, its state stack, per-session buffers - accumulates over the session.
        // (The pinned engine refuses every `go` after the first with an error; an engine that keeps the position
        // answers each of them.)
        let mut case = Case::new("C15", "session-many-gos-on-one-position", seed, Mode::Session);
        swarm_params(&mut rng, &mut case);
        case.params.node_cost = 100_000;
        case.params.oversleep_max = 0;
        case.params.max_polls = 400_000;
        case.params.max_steps = 2_000_000;
        let nm = *rng.pick(&["fortress", "fortress-b", "pawn-wall", "startpos", "italian", "rook-endgame", "kiwipete", "minor-endgame"]);
        let r = ROOTS.iter().find(|x| x.name == nm).unwrap();
        let n0 = rng.below(30);
        let pre = walk(&mut rng, &root_cmd(r), n0);
        case.push(GK::NewGame { root: root_cmd(r), pre });
        case.push(GK::PosCur);
        let resend = rng.chance(1, 4);
        for _ in 0..rng.range(60, if thorough { 400 } else { 140 }) {
            if resend {
                case.push(GK::PosCur);
            }
            match rng.below(3) {
                0 => {
                    case.raw(format!("go movetime {}", rng.range(6, 9)));
                }
                1 => {
                    case.raw("go infinite");
                    case.push(GK::AfterPolls(rng.range(1, 60)));
                    case.raw("stop");
                }
                _ => {
                    case.raw(format!("go depth {}", rng.range(4, 9)));
                    case.push(GK::AfterPolls(rng.range(1, 60)));
                    case.raw("stop");
                }
            }
            case.push(GK::AwaitBest);
        }
        case.raw("isready");
        case.push(GK::AwaitReady);
        case.raw("quit");
        case
    } else if fam <= 3 {
        // long games through `position ... moves ...`, then a search left running
        let mut case = Case::new("C15", "session-long-game-then-search", seed, Mode::Session);
        swarm_params(&mut rng, &mut case);
        case.params.node_cost = 1_000;
        case.params.oversleep_max = 0;
        let cap: u64 = if thorough { 6_000_000 } else { 1_500_000 };
        case.params.max_polls = cap + 50_000;
        case.params.max_steps = cap * 3 + 200_000;
        let nm = *rng.pick(&tiny);
        let r = ROOTS.iter().find(|x| x.name == nm).unwrap();
        let len = match rng.below(5) {
            0 => rng.range(380, 398),
            1 => rng.range(396, 402),
            2 => rng.range(400, 520),
            3 => *rng.pick(&[126u64, 127, 128, 129, 254, 255, 256, 257, 258, 383, 384, 385, 511, 512, 513]),
            _ => rng.range(200, 398),
        };
        let mut moves = long_walk(&mut rng, r.fen, len);
        if rng.chance(1, 4) {
            // the list ends in a well-formed move that is not legal there: `position` leaves through its error path
            moves.push((*rng.pick(&["e2e5", "a1a1", "h7h5", "e1g1", "b8c6"])).to_string());
        }
        case.push(GK::NewGame { root: root_cmd(r), pre: moves });
        case.push(GK::PosCur);
        // half of the runs are left running long enough for the iteration depth to pass 200 on bare kings
        let run_len = if rng.chance(1, 2) { rng.range(cap / 2, cap) } else { rng.log_uniform(1_000, cap) };
        match rng.below(6) {
            0..=2 => case.raw("go infinite"),
            3 | 4 => case.raw(format!("go depth {}", *rng.pick(&[2u64, 6, 12, 30, 64, 100, 120, 200, 255]))),
            _ => case.push(GK::GoClock { own: 3_600_000, own_inc: 600_000, opp: rng.log_uniform(1, 3_600_000), opp_inc: 0 }),
        }
        case.push(GK::AfterPolls(run_len));
        case.raw("stop");
        case.push(GK::AwaitBest);
        case.raw("isready");
        case.push(GK::AwaitReady);
        case.raw("quit");
        case
    } else if fam <= 5 {
        // self-play under the simulated clock, played to its natural end
        let mut case = Case::new("C15", "selfplay-to-the-end", seed, Mode::Autoplay);
        case.params.policy = rng.pick(&[Policy::Np, Policy::Rw(50), Policy::Rw(300)]).clone();
        case.params.fair = *rng.pick(&[2u32, 8, 64]);
        case.params.node_cost = 1_000_000;
        case.autoplay_ms = rng.range(1, if thorough { 60 } else { 12 });
        case.params.max_polls = if thorough { 400_000 } else { 60_000 };
        case.params.max_steps = case.params.max_polls * 4;
        case
    } else {
        // maximal-mobility and many-queens roots
        let mut case = Case::new("C15", "direct-max-mobility", seed, Mode::Direct);
        direct_params(&mut case, if thorough { 2_000_000 } else { 200_000 });
        if rng.chance(1, 3) {
            // positions only the FEN reader can produce
            case.family = "direct-odd-fen-roots".into();
            let f = *rng.pick(ODD_FENS);
            case.items.push(ditem(f, &[], Some(rng.range(1, 4) as u8), None));
            case.items.push(ditem(f, &[], None, Some(rng.log_uniform(10, 20_000))));
            return case;
        }
        let nm = *rng.pick(&["218-moves", "nine-queens", "queens-both", "promo-capture", "perft4", "kiwipete", "fortress", "fortress-b", "pawn-wall"]);
        let r = ROOTS.iter().find(|x| x.name == nm).unwrap();
        let n = rng.below(6);
        let pre = walk(&mut rng, r.fen, n);
        let dd = if r.class == 0 { rng.range(1, 8) } else { rng.range(1, 3) };
        case.items.push(ditem(r.fen, &pre, Some(dd as u8), None));
        case.items.push(ditem(r.fen, &pre, None, Some(rng.log_uniform(100, 100_000))));
        case
    }
}

/// Sibling positions (same placement; side, castling rights or en-passant file differ) searched back to back with
/// one table at the same depth, the position with more rights first: a hash that forgot a feature hands the second
/// search the first one's move.
pub fn gen_sibling_pairs(prop: &str, seed: u64) -> Case {
    let mut rng = Rng::new(seed, 0x51b);
    let mut case = Case::new(prop, "direct-sibling-positions", seed, Mode::Direct);
    direct_params(&mut case, 400_000);
    if rng.chance(1, 3) {
        // histories that take a castling right away while king and rook end up at home
        case.family = "direct-castling-rights-histories".into();
        let (root, line) = *rng.pick(RIGHTS_LINES);
        let l: Vec<String> = line.split_ascii_whitespace().map(|x| x.to_string()).collect();
        for _ in 0..rng.range(1, 3) {
            case.items.push(ditem(root, &l, Some(rng.range(1, 4) as u8), None));
            let more = walk_from(&mut rng, root, &l, 2);
            let mut l2 = l.clone();
            l2.extend(more);
            case.items.push(ditem(root, &l2, Some(rng.range(1, 3) as u8), None));
        }
        return case;
    }
    if rng.chance(1, 4) {
        // twins reached by moves: the en-passant right exists in one line only
        case.family = "direct-move-reached-twins".into();
        let (root, a, b) = *rng.pick(MOVE_TWINS);
        let la: Vec<String> = a.split_ascii_whitespace().map(|x| x.to_string()).collect();
        let lb: Vec<String> = b.split_ascii_whitespace().map(|x| x.to_string()).collect();
        let d = rng.range(1, 4) as u8;
        let (first, second) = if rng.chance(3, 4) { (la, lb) } else { (lb, la) };
        case.items.push(ditem(root, &first, Some(d), None));
        case.items.push(ditem(root, &second, Some(if rng.chance(3, 4) { d } else { rng.range(1, d as u64) as u8 }), None));
        if rng.chance(1, 2) {
            case.items.push(ditem(root, &first, Some(rng.range(1, 4) as u8), None));
        }
        return case;
    }
    for _ in 0..rng.range(1, 2) {
        let grp = *rng.pick(SIBLINGS);
        let d = rng.range(1, 3) as u8;
        let mut idx: Vec<usize> = (0..grp.len()).collect();
        if rng.chance(1, 4) {
            // any order
            for i in (1..idx.len()).rev() {
                let j = rng.below(i as u64 + 1) as usize;
                idx.swap(i, j);
            }
        }
        let take = rng.range(2, grp.len() as u64) as usize;
        for (n, &i) in idx.iter().take(take).enumerate() {
            let dd = if n == 0 || rng.chance(3, 4) { d } else { rng.range(1, d as u64) as u8 };
            case.items.push(ditem(grp[i], &[], Some(dd), None));
        }
    }
    case
}

/// Thousands of shallow searches of different positions on one table: every search leaves an exact root entry, so
/// a table that identifies positions by less than their full hash soon hands one root another root's move.
pub fn gen_many_roots(prop: &str, seed: u64, thorough: bool) -> Case {
    let mut rng = Rng::new(seed, 0x3a27);
    let mut case = Case::new(prop, "direct-many-roots", seed, Mode::Direct);
    direct_params(&mut case, 3_000_000);
    let n_groups = rng.range(2, 4);
    let per = if thorough { 6_000 } else { 1_000 };
    for _ in 0..n_groups {
        let r = loop {
            let r = rng.pick(ROOTS);
            if r.class != 3 {
                break r;
            }
        };
        let mut it = ditem(r.fen, &[], Some(1), None);
        it.walks = Some(Walks { n: per / n_groups as u32, max_len: rng.range(3, 12) as u8, seed: rng.next() });
        case.items.push(it);
    }
    case
}

/// The case a seed expands to for a property's default workload mix.
pub fn gen(prop: &str, seed: u64, thorough: bool) -> Case {
    let mut case = gen_inner(prop, seed, thorough);
    if case.mode == Mode::Session && matches!(prop, "C14" | "C06" | "C18") {
        // one session in five writes its FEN roots the short way (without the two move counters, or without the
        // full-move number): `position fen <4 or 5 fields> moves ...` is what the engine's own `show` prints
        let mut r = Rng::new(seed, 0xfe4);
        if r.chance(1, 5) {
            case.tags.push(format!("fenfields={}", r.range(4, 5)));
        }
        if r.chance(1, 8) {
            case.tags.push("searchmoves".into());
        }
    }
    match case.mode {
        Mode::Direct if !cfg!(feature = "direct") => direct_to_session(case),
        Mode::Autoplay if !cfg!(feature = "selfplay") => {
            let mut c = gen_session(prop, seed, 0, true);
            c.family = format!("{} (instead of {}: self-play entry point not built)", c.family, case.family);
            c
        }
        _ => case,
    }
}

/// The same workload through the UCI front end, for a build in which the harness cannot call the search itself
/// (an edit changed the entry point's signature beyond what the adapters bridge): one `position` + `go` per item, the
/// stop index delivered by the GUI after that many polls, a sweep reduced to three of its stop indices, many-roots
/// reduced to 200 walks, table-guided descent replaced by a seeded one-ply extension.
pub fn direct_to_session(d: Case) -> Case {
    let mut c = Case::new(&d.prop, &format!("{} (as a UCI session: direct entry point not built)", d.family), d.seed, Mode::Session);
    c.params = d.params.clone();
    c.params.search_on_main = false;
    c.params.max_steps = c.params.max_steps.max(400_000);
    c.tags = d.tags.clone();
    let mut rng = Rng::new(d.seed, 0xd125);
    let mut prev: (String, Vec<String>) = (String::new(), vec![]);
    let pos_line = |root: &str, moves: &[String]| {
        let r = if root == "startpos" || root.starts_with("fen ") { root.to_string() } else { format!("fen {}", root) };
        if moves.is_empty() {
            format!("position {}", r)
        } else {
            format!("position {} moves {}", r, moves.join(" "))
        }
    };
    let one = |c: &mut Case, root: &str, moves: &[String], depth: Option<u8>, stop: Option<u64>, pre: bool| {
        c.raw(pos_line(root, moves));
        match (depth, stop, pre) {
            (_, _, true) => {
                c.raw(match depth {
                    Some(n) => format!("go depth {}", n),
                    None => "go infinite".to_string(),
                });
                c.raw("stop");
            }
            (Some(n), None, _) => c.raw(format!("go depth {}", n)),
            (dd, st, _) => {
                c.raw(match dd {
                    Some(n) => format!("go depth {}", n),
                    None => "go infinite".to_string(),
                });
                c.push(GK::AfterPolls(st.unwrap_or(2_000).min(20_000)));
                c.raw("stop");
            }
        }
        c.push(GK::AwaitBest);
    };
    c.raw("uci");
    c.raw("isready");
    c.push(GK::AwaitReady);
    for it in &d.items {
        if it.fresh {
            c.raw("ucinewgame");
        }
        let (root, mut moves) = if it.descend.is_some() && !prev.0.is_empty() { (prev.0.clone(), prev.1.clone()) } else { (it.root.clone(), it.moves.clone()) };
        if it.descend.is_some() {
            let r = if root == "startpos" || root.starts_with("fen ") { root.clone() } else { format!("fen {}", root) };
            moves = walk_from(&mut rng, &r, &moves, 1);
        }
        prev = (root.clone(), moves.clone());
        if let Some(w) = &it.walks {
            let r = if root == "startpos" || root.starts_with("fen ") { root.clone() } else { format!("fen {}", root) };
            for _ in 0..w.n.min(200) {
                let len = rng.range(1, w.max_len.max(1) as u64);
                let line = walk_from(&mut rng, &r, &moves, len);
                one(&mut c, &root, &line, it.depth, None, false);
            }
            continue;
        }
        if let Some(sw) = &it.sweep {
            one(&mut c, &root, &moves, it.depth, None, true);
            for k in [0, rng.below(sw.head.max(1) + 1), rng.below(400)] {
                one(&mut c, &root, &moves, it.depth, Some(k), false);
            }
            continue;
        }
        one(&mut c, &root, &moves, it.depth, it.stop_at, it.pre_stopped);
    }
    c.raw("quit");
    c
}

fn gen_inner(prop: &str, seed: u64, thorough: bool) -> Case {
    match prop {
        "C14" => {
            if seed % 16 == 15 {
                // base session for a systematic single-preemption sweep (not on queen-heavy roots: the session is re-run
                // once per preemption point)
                let mut c = gen_session("C14", seed, 0, true);
                let heavy = c.steps.iter().any(|s| matches!(&s.k, GK::NewGame { root, .. } if ROOTS.iter().any(|r| r.class == 3 && root_cmd(r) == *root)));
                if heavy {
                    return c;
                }
                c.family = "session-mix/single-preemption-sweep".into();
                c.tags.push("preempt1".into());
                if thorough && seed % 64 == 15 {
                    c.family = "session-mix/preemption-pair-sweep".into();
                    c.tags.push("preempt2".into());
                }
                c.params.policy = Policy::Np;
                c.params.fair = 400;
                c.params.oversleep_max = 0;
                c
            } else if seed % 16 == 7 || seed % 16 == 3 {
                gen_chaos("C14", seed)
            } else {
                gen_session("C14", seed, 0, true)
            }
        }
        "C06" | "C18" => match seed % 10 {
            0..=2 => gen_session(prop, seed, 1, true),
            3 => gen_session(prop, seed, 1, false),
            4..=6 => gen_direct_history(prop, seed, true),
            7 => {
                if seed % 20 == 17 || seed % 40 == 7 {
                    let mut c = gen_direct_history_on(prop, seed, true, true);
                    c.family = "direct-table-history/mate-heavy".into();
                    c
                } else {
                    gen_direct_history(prop, seed, false)
                }
            }
            8 => gen_sibling_pairs(prop, seed),
            _ => {
                if seed % 20 == 9 {
                    gen_many_roots(prop, seed, thorough)
                } else {
                    gen_sibling_pairs(prop, seed)
                }
            }
        },
        "C07" => gen_c07(seed, thorough),
        "C08" => gen_c08(seed, thorough),
        "C13" => {
            if seed % 32 == 29 {
                // self-play: every move has `ms` of thinking time; its timer must end the move's search
                let mut rng = Rng::new(seed, 0x13a);
                let mut case = Case::new("C13", "selfplay-timed", seed, Mode::Autoplay);
                case.params.policy = rng.pick(&[Policy::Np, Policy::Rw(50), Policy::Rw(300), Policy::Pct(2)]).clone();
                case.params.fair = *rng.pick(&[2u32, 8, 64]);
                case.params.node_cost = *rng.pick(&[100_000u64, 1_000_000]);
                case.autoplay_ms = rng.range(0, 8);
                case.params.max_polls = 6_000;
                case.params.max_steps = 200_000;
                case
            } else if seed % 16 == 13 {
                gen_c13_extreme(seed)
            } else {
                gen_c13(seed, thorough)
            }
        }
        "C19" => gen_c19(seed, thorough),
        "C15" => gen_c15(seed, thorough),
        _ => gen_session(prop, seed, 0, true),
    }
}

#!/usr/bin/env python3
"""Turns the output of selftest/sensitivity.sh into the markdown of DESIGN.md 9.4 (own breakages, seeded changes in the
final run, benign edits)."""
import re, sys, collections
# several files: an entry of a later file replaces the entry of the same name in an earlier one (partial re-runs)
lines = []
for f in sys.argv[1:]:
    lines += open(f).read().splitlines()
own, seeded, benign, other = [], [], collections.OrderedDict(), []
def put(lst, rec):
    for i, r in enumerate(lst):
        if r[1] == rec[1]:
            lst[i] = rec
            return
    lst.append(rec)
for l in lines:
    m = re.match(r"^(CAUGHT|MISSED)\s+(\S+)\s+(.*)\((\d+)s\)$", l)
    if m:
        kind, name, rules, secs = m.groups()
        rules = ", ".join(sorted(set(re.findall(r"rule=(\S+)", rules)))) or rules.strip()
        put(seeded if name.startswith("seeded/") else own, (kind, name, rules, int(secs)))
        continue
    m = re.match(r"^(SILENT|ALARM)\s+(\S+)\s+(C\d\d)(.*)$", l)
    if m:
        benign.setdefault(m.group(2), {})[m.group(3)] = m.group(1)
        continue
    if l.strip():
        other.append(l)
print("**Own deliberate breakages** (`selftest/sensitivity/`, quick tier of the named check, replay reproduced in a fresh process):\n")
print("| patch | check | result | rules that fired | s |")
print("|---|---|---|---|---|")
for kind, name, rules, secs in own:
    prop, nm = name.split("__", 1)
    print("| `%s` | %s | %s | %s | %d |" % (nm.replace(".patch", ""), prop, kind.lower(), rules, secs))
print("\n%d of %d caught.\n" % (sum(1 for o in own if o[0] == "CAUGHT"), len(own)))
print("**Independently seeded changes in the final run** (every `seeded/*/patch.diff` against the quick tier of its property):\n")
print("%d of %d caught; " % (sum(1 for o in seeded if o[0] == "CAUGHT"), len(seeded)) + ("missed: " + ", ".join(o[1] for o in seeded if o[0] != "CAUGHT") if any(o[0] != "CAUGHT" for o in seeded) else "none missed") + ". Median time to the verdict %d s, maximum %d s.\n" % (sorted(o[3] for o in seeded)[len(seeded) // 2] if seeded else 0, max([o[3] for o in seeded] or [0])))
print("**Behaviour-preserving edits** (`selftest/benign/`, every check at half its quick size):\n")
props = ["C06", "C07", "C08", "C13", "C14", "C15", "C18", "C19"]
print("| patch | " + " | ".join(props) + " |")
print("|---|" + "---|" * len(props))
for name, d in benign.items():
    print("| `%s` | " % name.replace(".patch", "").replace("ALL__", "").replace("C14__", "") + " | ".join({"SILENT": "silent", "ALARM": "**ALARM**"}.get(d.get(p, ""), "-") for p in props) + " |")
n_alarm = sum(1 for d in benign.values() for v in d.values() if v == "ALARM")
print("\n%d runs, %d alarms." % (sum(len(d) for d in benign.values()), n_alarm))
if other:
    print("\nOther output:\n" + "\n".join(other))

// Generates the module declarations that mount the repository's own source files
// ($VERIF_REPO, default /repo) as modules of this crate.
use std::{env, fs, path::PathBuf};
fn main() {
    let repo = env::var("VERIF_REPO").unwrap_or_else(|_| "/repo".into());
    println!("cargo:rerun-if-env-changed=VERIF_REPO");
    println!("cargo:rerun-if-changed={}/src", repo);
    println!("cargo:rerun-if-changed={}/zobrist_bytes.bin", repo);
    println!("cargo:rustc-env=VERIF_REPO_BUILT={}", repo);
    println!("cargo:rustc-check-cfg=cfg(daniel729_chess_verif)");
    let out = PathBuf::from(env::var("OUT_DIR").unwrap()).join("mount.rs");
    let mut s = String::new();
    for (m, f) in [
        ("chess", "chess/mod.rs"),
        ("constants", "constants.rs"),
        ("search", "search.rs"),
        ("uci", "uci.rs"),
        ("autoplay", "autoplay.rs"),
    ] {
        s.push_str(&format!("#[path = \"{}/src/{}\"]\npub mod {};\n", repo, f, m));
    }
    fs::write(out, s).unwrap();
}

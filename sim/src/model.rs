//! Independent reference model of the rules of chess (trusted oracle for the test harness).
//!
//! Written from the FIDE Laws of Chess only; it shares no code with the engine under test.
//! Deliberately simple: 64-square mailbox, pseudo-legal generation, copy-make, and an
//! "own king not attacked afterwards" filter. std only, no unsafe.
//!
//! Square numbering: index = rank * 8 + file, a1 = 0, h1 = 7, a8 = 56, h8 = 63.
//! Piece encoding: 0 = empty, otherwise the ASCII FEN letter (`b'P'` white pawn, `b'n'` black knight, ...).
#![allow(dead_code)]

const WK: u8 = 1; // white may still castle short
const WQ: u8 = 2; // white may still castle long
const BK: u8 = 4; // black may still castle short
const BQ: u8 = 8; // black may still castle long

const KNIGHT_STEPS: [(i32, i32); 8] =
    [(1, 2), (2, 1), (2, -1), (1, -2), (-1, -2), (-2, -1), (-2, 1), (-1, 2)];
const KING_STEPS: [(i32, i32); 8] =
    [(1, 0), (1, 1), (0, 1), (-1, 1), (-1, 0), (-1, -1), (0, -1), (1, -1)];
const ROOK_DIRS: [(i32, i32); 4] = [(1, 0), (-1, 0), (0, 1), (0, -1)];
const BISHOP_DIRS: [(i32, i32); 4] = [(1, 1), (1, -1), (-1, 1), (-1, -1)];

/// Square index for (file, rank) if both are on the board.
fn at(file: i32, rank: i32) -> Option<usize> {
    if (0..8).contains(&file) && (0..8).contains(&rank) {
        Some((rank * 8 + file) as usize)
    } else {
        None
    }
}

fn file_of(sq: usize) -> i32 {
    (sq % 8) as i32
}

fn rank_of(sq: usize) -> i32 {
    (sq / 8) as i32
}

fn sq_name(sq: usize) -> String {
    let mut s = String::with_capacity(2);
    s.push((b'a' + (sq % 8) as u8) as char);
    s.push((b'1' + (sq / 8) as u8) as char);
    s
}

fn parse_sq(s: &str) -> Option<usize> {
    let b = s.as_bytes();
    if b.len() != 2 {
        return None;
    }
    if !(b'a'..=b'h').contains(&b[0]) || !(b'1'..=b'8').contains(&b[1]) {
        return None;
    }
    Some(((b[1] - b'1') as usize) * 8 + (b[0] - b'a') as usize)
}

/// The piece letter of `kind` (upper-case letter) for the given colour.
fn piece_of(white: bool, kind: u8) -> u8 {
    if white {
        kind.to_ascii_uppercase()
    } else {
        kind.to_ascii_lowercase()
    }
}

fn is_white_piece(p: u8) -> bool {
    p.is_ascii_uppercase()
}

/// Internal move: from, to, promotion letter (0 or one of b"qrbn").
#[derive(Clone, Copy, PartialEq, Eq, Debug)]
struct Mv {
    from: u8,
    to: u8,
    promo: u8,
}

impl Mv {
    fn new(from: usize, to: usize, promo: u8) -> Mv {
        Mv { from: from as u8, to: to as u8, promo }
    }

    fn uci(&self) -> String {
        let mut s = sq_name(self.from as usize);
        s.push_str(&sq_name(self.to as usize));
        if self.promo != 0 {
            s.push(self.promo as char);
        }
        s
    }
}

#[derive(Clone, PartialEq, Eq, Debug)]
pub struct Pos {
    board: [u8; 64],
    white: bool,
    castle: u8,
    /// En-passant square, FIDE style (set after every double push), or as given in the FEN.
    ep: Option<u8>,
    halfmove: u32,
    fullmove: u32,
}

impl Pos {
    pub fn startpos() -> Pos {
        Pos::from_fen("rnbqkbnr/pppppppp/8/8/8/8/PPPPPPPP/RNBQKBNR w KQkq - 0 1")
            .expect("start position FEN is valid")
    }

    /// Accepts FEN with 4, 5 or 6 fields (missing halfmove/fullmove default to 0 / 1).
    ///
    /// Beyond syntax this also rejects positions that are not playable chess positions:
    /// not exactly one king per side, a pawn on rank 1 or 8, or the side NOT to move being in check.
    pub fn from_fen(fen: &str) -> Result<Pos, String> {
        let fields: Vec<&str> = fen.split_whitespace().collect();
        if fields.len() < 4 || fields.len() > 6 {
            return Err(format!("expected 4 to 6 fields, found {}", fields.len()));
        }

        // Field 1: placement.
        let mut board = [0u8; 64];
        let ranks: Vec<&str> = fields[0].split('/').collect();
        if ranks.len() != 8 {
            return Err(format!("expected 8 ranks, found {}", ranks.len()));
        }
        for (i, text) in ranks.iter().enumerate() {
            let rank = 7 - i as i32;
            let mut file = 0i32;
            let mut last_was_digit = false;
            for c in text.bytes() {
                match c {
                    b'1'..=b'8' => {
                        if last_was_digit {
                            return Err(format!("two consecutive digits in rank '{}'", text));
                        }
                        last_was_digit = true;
                        file += (c - b'0') as i32;
                    }
                    b'P' | b'N' | b'B' | b'R' | b'Q' | b'K' | b'p' | b'n' | b'b' | b'r' | b'q'
                    | b'k' => {
                        last_was_digit = false;
                        match at(file, rank) {
                            Some(sq) => board[sq] = c,
                            None => return Err(format!("rank '{}' is too long", text)),
                        }
                        file += 1;
                    }
                    _ => return Err(format!("bad character '{}' in placement", c as char)),
                }
                if file > 8 {
                    return Err(format!("rank '{}' is too long", text));
                }
            }
            if file != 8 {
                return Err(format!("rank '{}' does not describe 8 squares", text));
            }
        }

        // Field 2: side to move.
        let white = match fields[1] {
            "w" => true,
            "b" => false,
            other => return Err(format!("bad side to move '{}'", other)),
        };

        // Field 3: castling rights.
        let mut castle = 0u8;
        if fields[2] != "-" {
            if fields[2].is_empty() {
                return Err("empty castling field".to_string());
            }
            for c in fields[2].bytes() {
                let bit = match c {
                    b'K' => WK,
                    b'Q' => WQ,
                    b'k' => BK,
                    b'q' => BQ,
                    _ => return Err(format!("bad castling field '{}'", fields[2])),
                };
                if castle & bit != 0 {
                    return Err(format!("duplicate letter in castling field '{}'", fields[2]));
                }
                castle |= bit;
            }
        }

        // Field 4: en-passant square (taken as given, but must be a square on rank 3 or 6).
        let ep = if fields[3] == "-" {
            None
        } else {
            match parse_sq(fields[3]) {
                Some(sq) if rank_of(sq) == 2 || rank_of(sq) == 5 => Some(sq as u8),
                _ => return Err(format!("bad en-passant field '{}'", fields[3])),
            }
        };

        // Fields 5 and 6: clocks.
        let halfmove = match fields.get(4) {
            None => 0,
            Some(t) => parse_number(t).ok_or_else(|| format!("bad halfmove clock '{}'", t))?,
        };
        let fullmove = match fields.get(5) {
            None => 1,
            Some(t) => parse_number(t).ok_or_else(|| format!("bad fullmove number '{}'", t))?,
        };

        let pos = Pos { board, white, castle, ep, halfmove, fullmove };

        // Sanity of the position itself.
        let wk = board.iter().filter(|&&p| p == b'K').count();
        let bk = board.iter().filter(|&&p| p == b'k').count();
        if wk != 1 || bk != 1 {
            return Err(format!("need exactly one king per side (white {}, black {})", wk, bk));
        }
        for sq in (0..8).chain(56..64) {
            if board[sq] == b'P' || board[sq] == b'p' {
                return Err(format!("pawn on {}", sq_name(sq)));
            }
        }
        if pos.king_attacked(!white) {
            return Err("the side not to move is in check".to_string());
        }
        Ok(pos)
    }

    /// Six-field FEN, en-passant field FIDE style.
    pub fn to_fen(&self) -> String {
        format!(
            "{} {} {} {} {} {}",
            self.placement(),
            if self.white { "w" } else { "b" },
            self.castling(),
            self.ep_square().unwrap_or_else(|| "-".to_string()),
            self.halfmove,
            self.fullmove
        )
    }

    /// FEN field 1.
    pub fn placement(&self) -> String {
        let mut s = String::new();
        for rank in (0..8).rev() {
            let mut empty = 0;
            for file in 0..8 {
                let p = self.board[rank * 8 + file];
                if p == 0 {
                    empty += 1;
                } else {
                    if empty > 0 {
                        s.push((b'0' + empty) as char);
                        empty = 0;
                    }
                    s.push(p as char);
                }
            }
            if empty > 0 {
                s.push((b'0' + empty) as char);
            }
            if rank > 0 {
                s.push('/');
            }
        }
        s
    }

    pub fn white_to_move(&self) -> bool {
        self.white
    }

    /// Subset of "KQkq" in that order, or "-".
    pub fn castling(&self) -> String {
        let mut s = String::new();
        for (bit, c) in [(WK, 'K'), (WQ, 'Q'), (BK, 'k'), (BQ, 'q')] {
            if self.castle & bit != 0 {
                s.push(c);
            }
        }
        if s.is_empty() {
            s.push('-');
        }
        s
    }

    pub fn ep_square(&self) -> Option<String> {
        self.ep.map(|sq| sq_name(sq as usize))
    }

    /// true iff an en-passant capture is LEGAL in this position.
    pub fn ep_capturable(&self) -> bool {
        self.successors().iter().any(|(m, _)| self.is_en_passant(*m))
    }

    /// All legal moves as UCI text, sorted ascending, no duplicates.
    pub fn legal_moves(&self) -> Vec<String> {
        let mut v: Vec<String> = self.successors().iter().map(|(m, _)| m.uci()).collect();
        v.sort();
        v.dedup();
        v
    }

    /// Plays `uci` iff it is the text of a legal move; returns whether it was played.
    pub fn play(&mut self, uci: &str) -> bool {
        for (m, next) in self.successors() {
            if m.uci() == uci {
                *self = next;
                return true;
            }
        }
        false
    }

    /// Side to move is in check.
    pub fn in_check(&self) -> bool {
        self.king_attacked(self.white)
    }

    pub fn is_checkmate(&self) -> bool {
        self.in_check() && self.successors().is_empty()
    }

    pub fn is_stalemate(&self) -> bool {
        !self.in_check() && self.successors().is_empty()
    }

    pub fn perft(&self, depth: u32) -> u64 {
        if depth == 0 {
            return 1;
        }
        let succ = self.successors();
        if depth == 1 {
            return succ.len() as u64;
        }
        succ.iter().map(|(_, next)| next.perft(depth - 1)).sum()
    }

    /// Number of pieces on the board including kings.
    pub fn piece_count(&self) -> u32 {
        self.board.iter().filter(|&&p| p != 0).count() as u32
    }

    // ----------------------------------------------------------------------------------------
    // internals
    // ----------------------------------------------------------------------------------------

    fn king_square(&self, white: bool) -> Option<usize> {
        let k = piece_of(white, b'K');
        self.board.iter().position(|&p| p == k)
    }

    /// Is the king of colour `white` attacked by the other side?
    fn king_attacked(&self, white: bool) -> bool {
        match self.king_square(white) {
            Some(sq) => self.attacked(sq, !white),
            None => false,
        }
    }

    /// Is `target` attacked by any piece of the colour `by_white`? (Occupancy of `target` is irrelevant.)
    fn attacked(&self, target: usize, by_white: bool) -> bool {
        let tf = file_of(target);
        let tr = rank_of(target);

        // Pawns: a white pawn attacks diagonally upwards, so it stands one rank BELOW the target.
        let pawn = piece_of(by_white, b'P');
        let pawn_rank = if by_white { tr - 1 } else { tr + 1 };
        for df in [-1, 1] {
            if let Some(sq) = at(tf + df, pawn_rank) {
                if self.board[sq] == pawn {
                    return true;
                }
            }
        }

        let knight = piece_of(by_white, b'N');
        for (df, dr) in KNIGHT_STEPS {
            if let Some(sq) = at(tf + df, tr + dr) {
                if self.board[sq] == knight {
                    return true;
                }
            }
        }

        let king = piece_of(by_white, b'K');
        for (df, dr) in KING_STEPS {
            if let Some(sq) = at(tf + df, tr + dr) {
                if self.board[sq] == king {
                    return true;
                }
            }
        }

        let queen = piece_of(by_white, b'Q');
        let rook = piece_of(by_white, b'R');
        let bishop = piece_of(by_white, b'B');
        for (dirs, slider) in [(ROOK_DIRS, rook), (BISHOP_DIRS, bishop)] {
            for (df, dr) in dirs {
                let (mut f, mut r) = (tf + df, tr + dr);
                while let Some(sq) = at(f, r) {
                    let p = self.board[sq];
                    if p != 0 {
                        if p == slider || p == queen {
                            return true;
                        }
                        break;
                    }
                    f += df;
                    r += dr;
                }
            }
        }
        false
    }

    /// The en-passant square if the board actually looks like "the opponent has just double-pushed
    /// a pawn over it": right rank for the side to move, square empty, square the pawn came from empty,
    /// opposing pawn directly in front of it (from the opponent's point of view).
    fn ep_target(&self) -> Option<usize> {
        let sq = self.ep? as usize;
        let f = file_of(sq);
        let (ep_rank, pawn_rank, origin_rank) = if self.white { (5, 4, 6) } else { (2, 3, 1) };
        if rank_of(sq) != ep_rank || self.board[sq] != 0 {
            return None;
        }
        let pawn_sq = at(f, pawn_rank)?;
        let origin_sq = at(f, origin_rank)?;
        if self.board[pawn_sq] != piece_of(!self.white, b'P') || self.board[origin_sq] != 0 {
            return None;
        }
        Some(sq)
    }

    fn is_en_passant(&self, m: Mv) -> bool {
        let from = m.from as usize;
        let to = m.to as usize;
        self.board[from].to_ascii_uppercase() == b'P'
            && file_of(from) != file_of(to)
            && self.board[to] == 0
    }

    /// Moves that obey piece movement and castling conditions but may leave the own king attacked.
    fn pseudo_moves(&self) -> Vec<Mv> {
        let mut out = Vec::with_capacity(64);
        let us = self.white;
        let ep = self.ep_target();

        for from in 0..64usize {
            let p = self.board[from];
            if p == 0 || is_white_piece(p) != us {
                continue;
            }
            let f = file_of(from);
            let r = rank_of(from);
            match p.to_ascii_uppercase() {
                b'P' => {
                    let dir = if us { 1 } else { -1 };
                    let start_rank = if us { 1 } else { 6 };
                    let last_rank = if us { 7 } else { 0 };
                    let push = |out: &mut Vec<Mv>, to: usize| {
                        if rank_of(to) == last_rank {
                            for promo in [b'q', b'r', b'b', b'n'] {
                                out.push(Mv::new(from, to, promo));
                            }
                        } else {
                            out.push(Mv::new(from, to, 0));
                        }
                    };
                    if let Some(one) = at(f, r + dir) {
                        if self.board[one] == 0 {
                            push(&mut out, one);
                            if r == start_rank {
                                if let Some(two) = at(f, r + 2 * dir) {
                                    if self.board[two] == 0 {
                                        push(&mut out, two);
                                    }
                                }
                            }
                        }
                    }
                    for df in [-1, 1] {
                        if let Some(to) = at(f + df, r + dir) {
                            let t = self.board[to];
                            if t != 0 {
                                if is_white_piece(t) != us {
                                    push(&mut out, to);
                                }
                            } else if ep == Some(to) {
                                out.push(Mv::new(from, to, 0));
                            }
                        }
                    }
                }
                b'N' | b'K' => {
                    let steps = if p.to_ascii_uppercase() == b'N' { KNIGHT_STEPS } else { KING_STEPS };
                    for (df, dr) in steps {
                        if let Some(to) = at(f + df, r + dr) {
                            let t = self.board[to];
                            if t == 0 || is_white_piece(t) != us {
                                out.push(Mv::new(from, to, 0));
                            }
                        }
                    }
                }
                kind => {
                    // B, R, Q
                    let mut dirs: Vec<(i32, i32)> = Vec::with_capacity(8);
                    if kind == b'R' || kind == b'Q' {
                        dirs.extend_from_slice(&ROOK_DIRS);
                    }
                    if kind == b'B' || kind == b'Q' {
                        dirs.extend_from_slice(&BISHOP_DIRS);
                    }
                    for (df, dr) in dirs {
                        let (mut tf, mut tr) = (f + df, r + dr);
                        while let Some(to) = at(tf, tr) {
                            let t = self.board[to];
                            if t == 0 {
                                out.push(Mv::new(from, to, 0));
                            } else {
                                if is_white_piece(t) != us {
                                    out.push(Mv::new(from, to, 0));
                                }
                                break;
                            }
                            tf += df;
                            tr += dr;
                        }
                    }
                }
            }
        }

        // Castling. `base` is a1 for white, a8 for black.
        let base = if us { 0 } else { 56 };
        let (short_bit, long_bit) = if us { (WK, WQ) } else { (BK, BQ) };
        let king = piece_of(us, b'K');
        let rook = piece_of(us, b'R');
        let e = base + 4;
        if self.board[e] == king {
            let empty = |sq: usize| self.board[sq] == 0;
            let safe = |sq: usize| !self.attacked(sq, !us);
            if self.castle & short_bit != 0
                && self.board[base + 7] == rook
                && empty(base + 5)
                && empty(base + 6)
                && safe(e)
                && safe(base + 5)
                && safe(base + 6)
            {
                out.push(Mv::new(e, base + 6, 0));
            }
            if self.castle & long_bit != 0
                && self.board[base] == rook
                && empty(base + 1)
                && empty(base + 2)
                && empty(base + 3)
                && safe(e)
                && safe(base + 3)
                && safe(base + 2)
            {
                out.push(Mv::new(e, base + 2, 0));
            }
        }
        out
    }

    /// The position after playing the (pseudo-legal) move `m`.
    fn apply(&self, m: Mv) -> Pos {
        let mut n = self.clone();
        let from = m.from as usize;
        let to = m.to as usize;
        let piece = self.board[from];
        let kind = piece.to_ascii_uppercase();
        let mut capture = self.board[to] != 0;

        n.board[from] = 0;
        if kind == b'P' && file_of(from) != file_of(to) && self.board[to] == 0 {
            // en passant: the captured pawn stands beside the capturing pawn
            let victim = (rank_of(from) * 8 + file_of(to)) as usize;
            n.board[victim] = 0;
            capture = true;
        }
        n.board[to] = if m.promo != 0 { piece_of(self.white, m.promo) } else { piece };
        if kind == b'K' && (file_of(to) - file_of(from)).abs() == 2 {
            let base = (rank_of(from) * 8) as usize;
            if file_of(to) == 6 {
                n.board[base + 5] = n.board[base + 7];
                n.board[base + 7] = 0;
            } else {
                n.board[base + 3] = n.board[base];
                n.board[base] = 0;
            }
        }

        // Anything leaving or arriving on a king/rook home square ends the related rights.
        for sq in [from, to] {
            n.castle &= !match sq {
                0 => WQ,
                4 => WK | WQ,
                7 => WK,
                56 => BQ,
                60 => BK | BQ,
                63 => BK,
                _ => 0,
            };
        }

        n.ep = if kind == b'P' && (rank_of(to) - rank_of(from)).abs() == 2 {
            Some(((from + to) / 2) as u8)
        } else {
            None
        };
        n.halfmove = if kind == b'P' || capture { 0 } else { self.halfmove + 1 };
        if !self.white {
            n.fullmove += 1;
        }
        n.white = !self.white;
        n
    }

    /// All legal moves together with the position each one leads to.
    fn successors(&self) -> Vec<(Mv, Pos)> {
        let mut out = Vec::with_capacity(48);
        for m in self.pseudo_moves() {
            let next = self.apply(m);
            if !next.king_attacked(self.white) {
                out.push((m, next));
            }
        }
        out
    }
}

fn parse_number(t: &str) -> Option<u32> {
    if t.is_empty() || !t.bytes().all(|b| b.is_ascii_digit()) {
        return None;
    }
    t.parse::<u32>().ok()
}

// ============================================================================================
// self test
// ============================================================================================

macro_rules! ensure {
    ($cond:expr, $($arg:tt)*) => {
        if !($cond) {
            return Err(format!($($arg)*));
        }
    };
}

const START_FEN: &str = "rnbqkbnr/pppppppp/8/8/8/8/PPPPPPPP/RNBQKBNR w KQkq - 0 1";
const KIWIPETE: &str = "r3k2r/p1ppqpb1/bn2pnp1/3PN3/1p2P3/2N2Q1p/PPPBBPPP/R3K2R w KQkq -";
const POSITION3: &str = "8/2p5/3p4/KP5r/1R3p1k/8/4P1P1/8 w - -";
const POSITION4: &str = "r3k2r/Pppp1ppp/1b3nbN/nP6/BBP1P3/q4N2/Pp1P2PP/R2Q1RK1 w kq - 0 1";
const POSITION5: &str = "rnbq1k1r/pp1Pbppp/2p5/8/2B5/8/PPP1NnPP/RNBQK2R w KQ - 1 8";
const POSITION6: &str = "r4rk1/1pp1qppp/p1np1n2/2b1p1B1/2B1P1b1/P1NP1N2/1PP1QPPP/R4RK1 w - - 0 10";

const EP_RANK_PIN: &str = "8/8/8/KPp4r/8/8/8/4k3 w - c6 0 1";
const EP_DIAG_PIN_CAPTURER: &str = "4k3/6b1/8/3pP3/8/2K5/8/8 w - d6 0 1";
const EP_DIAG_PIN_VICTIM: &str = "b3k3/8/8/3pP3/8/8/6K1/8 w - d6 0 1";
const CASTLE_B1_ATTACKED: &str = "1r2k3/8/8/8/8/8/8/R3K3 w Q - 0 1";
const CASTLE_C1_ATTACKED: &str = "2r1k3/8/8/8/8/8/8/R3K3 w Q - 0 1";
const CASTLE_D1_ATTACKED: &str = "3rk3/8/8/8/8/8/8/R3K3 w Q - 0 1";
const CASTLE_F1_ATTACKED: &str = "4kr2/8/8/8/8/8/8/4K2R w K - 0 1";
const CASTLE_G1_ATTACKED: &str = "4k1r1/8/8/8/8/8/8/4K2R w K - 0 1";
const CASTLE_H1_ATTACKED: &str = "4k2r/8/8/8/8/8/8/4K2R w K - 0 1";
const CASTLE_FREE: &str = "4k3/8/8/8/8/8/8/4K2R w K - 0 1";
const CASTLE_IN_CHECK: &str = "3kr3/8/8/8/8/8/8/R3K2R w KQ - 0 1";
const CASTLE_KING_ADJACENT: &str = "8/8/8/8/8/8/6k1/4K2R w K - 0 1";
const CASTLE_BLACK_B8_ATTACKED: &str = "r3k2r/8/8/8/8/8/8/1R2K3 b kq - 0 1";
const CASTLE_BLACK_D8_ATTACKED: &str = "r3k2r/8/8/8/8/8/8/3RK3 b kq - 0 1";
const CASTLE_BLOCKED: &str = "4k3/8/8/8/8/8/8/RN2K1NR w KQ - 0 1";
const CASTLE_NO_RIGHT: &str = "4k3/8/8/8/8/8/8/R3K2R w - - 0 1";
const CASTLE_BOTH: &str = "r3k2r/8/8/8/8/8/8/R3K2R w KQkq - 0 1";
const PROMO_CAPTURE: &str = "4k2r/6P1/8/8/8/8/8/4K3 w k - 0 1";
const DOUBLE_CHECK: &str = "4r2k/8/8/8/8/5n2/8/3QK3 w - - 0 1";
const STALEMATE: &str = "7k/5Q2/6K1/8/8/8/8/8 b - - 0 1";
const FOOLS_MATE: &str = "rnb1kbnr/pppp1ppp/8/4p3/6Pq/5P2/PPPPP2P/RNBQKBNR w KQkq - 1 3";
const MOVES_218: &str = "R6R/3Q4/1Q4Q1/4Q3/2Q4Q/Q4Q2/pp1Q4/kBNN1KB1 w - - 0 1";

fn parse(fen: &str) -> Result<Pos, String> {
    Pos::from_fen(fen).map_err(|e| format!("from_fen(\"{}\") failed: {}", fen, e))
}

fn has_move(p: &Pos, mv: &str) -> bool {
    p.legal_moves().iter().any(|m| m == mv)
}

fn expect_moves(fen: &str, expected: &[&str]) -> Result<(), String> {
    let p = parse(fen)?;
    let got = p.legal_moves();
    let mut want: Vec<String> = expected.iter().map(|s| s.to_string()).collect();
    want.sort();
    ensure!(got == want, "legal moves of \"{}\": got {:?}, expected {:?}", fen, got, want);
    Ok(())
}

fn expect_castle(fen: &str, mv: &str, legal: bool) -> Result<(), String> {
    let p = parse(fen)?;
    ensure!(
        has_move(&p, mv) == legal,
        "\"{}\": castling move {} should be {}",
        fen,
        mv,
        if legal { "legal" } else { "illegal" }
    );
    let mut q = p.clone();
    ensure!(q.play(mv) == legal, "\"{}\": play({}) should return {}", fen, mv, legal);
    if !legal {
        ensure!(q == p, "\"{}\": rejected play({}) changed the position", fen, mv);
    }
    Ok(())
}

fn play_all(p: &mut Pos, moves: &[&str]) -> Result<(), String> {
    for m in moves {
        let before = p.to_fen();
        ensure!(p.play(m), "move {} rejected in \"{}\"", m, before);
    }
    Ok(())
}

fn round_trip(fen: &str) -> Result<(), String> {
    let p = parse(fen)?;
    let out = p.to_fen();
    ensure!(
        out.split_whitespace().count() == 6,
        "to_fen of \"{}\" is not six fields: \"{}\"",
        fen,
        out
    );
    if fen.split_whitespace().count() == 6 {
        ensure!(out == fen, "round trip of \"{}\" produced \"{}\"", fen, out);
    } else {
        ensure!(
            out.starts_with(fen),
            "round trip of short FEN \"{}\" produced \"{}\"",
            fen,
            out
        );
    }
    let q = parse(&out)?;
    ensure!(q == p, "re-parsing \"{}\" gives a different position", out);
    ensure!(q.to_fen() == out, "second to_fen of \"{}\" differs", out);
    ensure!(p.placement() == fen.split_whitespace().next().unwrap(), "placement of \"{}\"", fen);
    Ok(())
}

fn perft_cases(thorough: bool) -> Result<(), String> {
    // (fen, [(depth, nodes, thorough only)])
    let table: [(&str, &[(u32, u64, bool)]); 6] = [
        (START_FEN, &[(1, 20, false), (2, 400, false), (3, 8902, false), (4, 197281, false)]),
        (KIWIPETE, &[(1, 48, false), (2, 2039, false), (3, 97862, false), (4, 4085603, true)]),
        (
            POSITION3,
            &[(1, 14, false), (2, 191, false), (3, 2812, false), (4, 43238, false), (5, 674624, true)],
        ),
        (POSITION4, &[(1, 6, false), (2, 264, false), (3, 9467, false), (4, 422333, false)]),
        (POSITION5, &[(1, 44, false), (2, 1486, false), (3, 62379, false), (4, 2103487, true)]),
        (POSITION6, &[(1, 46, false), (2, 2079, false), (3, 89890, false), (4, 3894594, true)]),
    ];
    for (fen, cases) in table {
        let p = parse(fen)?;
        for &(depth, nodes, thorough_only) in cases {
            if thorough_only && !thorough {
                continue;
            }
            let got = p.perft(depth);
            ensure!(got == nodes, "perft({}) of \"{}\": got {}, expected {}", depth, fen, got, nodes);
        }
    }
    // Extra (not from the required list): castling-only position of the common perft suites.
    let p = parse(CASTLE_BOTH)?;
    for (depth, nodes) in [(1u32, 26u64), (2, 568), (3, 13744)] {
        let got = p.perft(depth);
        ensure!(got == nodes, "perft({}) of \"{}\": got {}, expected {}", depth, CASTLE_BOTH, got, nodes);
    }
    ensure!(Pos::startpos().perft(0) == 1, "perft(0) must be 1");
    Ok(())
}

fn unit_cases() -> Result<(), String> {
    // --- start position basics -------------------------------------------------------------
    let start = Pos::startpos();
    ensure!(start.to_fen() == START_FEN, "startpos FEN: {}", start.to_fen());
    ensure!(start.white_to_move(), "startpos: white to move");
    ensure!(start.castling() == "KQkq", "startpos castling");
    ensure!(start.ep_square().is_none(), "startpos ep");
    ensure!(start.piece_count() == 32, "startpos piece count");
    ensure!(!start.in_check() && !start.is_checkmate() && !start.is_stalemate(), "startpos state");
    expect_moves(
        START_FEN,
        &[
            "a2a3", "a2a4", "b1a3", "b1c3", "b2b3", "b2b4", "c2c3", "c2c4", "d2d3", "d2d4", "e2e3",
            "e2e4", "f2f3", "f2f4", "g1f3", "g1h3", "g2g3", "g2g4", "h2h3", "h2h4",
        ],
    )?;
    {
        let l = start.legal_moves();
        let mut s = l.clone();
        s.sort();
        s.dedup();
        ensure!(l == s, "legal_moves must be sorted and free of duplicates");
    }

    // --- en passant that would expose the own king -----------------------------------------
    {
        // Along the rank: both pawns leave the fifth rank, rook h5 would hit the king on a5.
        let p = parse(EP_RANK_PIN)?;
        ensure!(p.ep_square().as_deref() == Some("c6"), "rank pin: ep square");
        ensure!(!has_move(&p, "b5c6"), "rank pin: b5c6 must be illegal");
        ensure!(!p.ep_capturable(), "rank pin: ep_capturable must be false");
        // b4 is covered by the pawn c5; everything else next to the king is free.
        expect_moves(EP_RANK_PIN, &["a5a4", "a5a6", "a5b6", "b5b6"])?;

        // Along a diagonal, capturing pawn pinned: bishop g7 - pawn e5 - king c3.
        let p = parse(EP_DIAG_PIN_CAPTURER)?;
        ensure!(!has_move(&p, "e5d6"), "diagonal pin (capturer): e5d6 must be illegal");
        ensure!(!has_move(&p, "e5e6"), "diagonal pin (capturer): e5e6 must be illegal");
        ensure!(!p.ep_capturable(), "diagonal pin (capturer): ep_capturable must be false");
        // c4 is covered by the pawn d5.
        expect_moves(
            EP_DIAG_PIN_CAPTURER,
            &["c3b2", "c3b3", "c3b4", "c3c2", "c3d2", "c3d3", "c3d4"],
        )?;

        // Along a diagonal, captured pawn is the only blocker: bishop a8 - pawn d5 - king g2.
        let p = parse(EP_DIAG_PIN_VICTIM)?;
        ensure!(!has_move(&p, "e5d6"), "diagonal pin (victim): e5d6 must be illegal");
        ensure!(has_move(&p, "e5e6"), "diagonal pin (victim): e5e6 must be legal");
        ensure!(!p.ep_capturable(), "diagonal pin (victim): ep_capturable must be false");
    }

    // --- en passant square bookkeeping -----------------------------------------------------
    {
        let mut p = Pos::startpos();
        play_all(&mut p, &["e2e4"])?;
        ensure!(p.ep_square().as_deref() == Some("e3"), "after e2e4: ep square");
        ensure!(!p.ep_capturable(), "after e2e4: ep not capturable");
        ensure!(
            p.to_fen() == "rnbqkbnr/pppppppp/8/8/4P3/8/PPPP1PPP/RNBQKBNR b KQkq e3 0 1",
            "after e2e4: FEN {}",
            p.to_fen()
        );
        play_all(&mut p, &["a7a6", "e4e5", "d7d5"])?;
        ensure!(p.ep_square().as_deref() == Some("d6"), "after d7d5: ep square");
        ensure!(p.ep_capturable(), "after d7d5: ep capturable");
        ensure!(
            p.to_fen() == "rnbqkbnr/1pp1pppp/p7/3pP3/8/8/PPPP1PPP/RNBQKBNR w KQkq d6 0 3",
            "after d7d5: FEN {}",
            p.to_fen()
        );
        ensure!(has_move(&p, "e5d6"), "e5d6 must be legal");
        round_trip(&p.to_fen())?;
        // The right lapses if not used at once.
        let mut q = p.clone();
        play_all(&mut q, &["a2a3", "a6a5"])?;
        ensure!(q.ep_square().is_none() && !has_move(&q, "e5d6"), "ep right must lapse");
        play_all(&mut p, &["e5d6"])?;
        ensure!(
            p.to_fen() == "rnbqkbnr/1pp1pppp/p2P4/8/8/8/PPPP1PPP/RNBQKBNR b KQkq - 0 3",
            "after e5d6: FEN {}",
            p.to_fen()
        );
        ensure!(p.piece_count() == 31, "after e5d6: piece count");
        // Black capturing en passant.
        let mut p = Pos::startpos();
        play_all(&mut p, &["a2a3", "d7d5", "a3a4", "d5d4", "e2e4"])?;
        ensure!(p.ep_square().as_deref() == Some("e3") && p.ep_capturable(), "black ep available");
        play_all(&mut p, &["d4e3"])?;
        ensure!(
            p.to_fen() == "rnbqkbnr/ppp1pppp/8/8/P7/4p3/1PPP1PPP/RNBQKBNR w KQkq - 0 4",
            "after d4e3: FEN {}",
            p.to_fen()
        );
        // A bogus ep field (nothing was double-pushed) is kept in the FEN but yields no capture.
        let p = parse("4k3/8/8/4P3/8/8/8/4K3 w - d6 0 1")?;
        ensure!(p.ep_square().as_deref() == Some("d6"), "bogus ep is kept as given");
        ensure!(!p.ep_capturable() && !has_move(&p, "e5d6"), "bogus ep gives no capture");
    }

    // --- clocks ----------------------------------------------------------------------------
    {
        let mut p = Pos::startpos();
        play_all(&mut p, &["g1f3"])?;
        ensure!(
            p.to_fen() == "rnbqkbnr/pppppppp/8/8/8/5N2/PPPPPPPP/RNBQKB1R b KQkq - 1 1",
            "after g1f3: FEN {}",
            p.to_fen()
        );
        play_all(&mut p, &["b8c6"])?;
        ensure!(
            p.to_fen() == "r1bqkbnr/pppppppp/2n5/8/8/5N2/PPPPPPPP/RNBQKB1R w KQkq - 2 2",
            "after b8c6: FEN {}",
            p.to_fen()
        );
        play_all(&mut p, &["f3e5", "c6e5"])?; // capture resets the clock
        ensure!(
            p.to_fen() == "r1bqkbnr/pppppppp/8/4n3/8/8/PPPPPPPP/RNBQKB1R w KQkq - 0 3",
            "after c6e5: FEN {}",
            p.to_fen()
        );
    }

    // --- castling --------------------------------------------------------------------------
    expect_castle(CASTLE_B1_ATTACKED, "e1c1", true)?;
    expect_castle(CASTLE_C1_ATTACKED, "e1c1", false)?;
    expect_castle(CASTLE_D1_ATTACKED, "e1c1", false)?;
    expect_castle(CASTLE_F1_ATTACKED, "e1g1", false)?;
    expect_castle(CASTLE_G1_ATTACKED, "e1g1", false)?;
    expect_castle(CASTLE_H1_ATTACKED, "e1g1", true)?;
    expect_castle(CASTLE_FREE, "e1g1", true)?;
    expect_castle(CASTLE_IN_CHECK, "e1g1", false)?;
    expect_castle(CASTLE_IN_CHECK, "e1c1", false)?;
    expect_castle(CASTLE_KING_ADJACENT, "e1g1", false)?;
    expect_castle(CASTLE_BLACK_B8_ATTACKED, "e8c8", true)?;
    expect_castle(CASTLE_BLACK_B8_ATTACKED, "e8g8", true)?;
    expect_castle(CASTLE_BLACK_D8_ATTACKED, "e8c8", false)?;
    expect_castle(CASTLE_BLACK_D8_ATTACKED, "e8g8", true)?;
    expect_castle(CASTLE_BLOCKED, "e1g1", false)?;
    expect_castle(CASTLE_BLOCKED, "e1c1", false)?;
    expect_castle(CASTLE_NO_RIGHT, "e1g1", false)?;
    expect_castle(CASTLE_NO_RIGHT, "e1c1", false)?;
    {
        ensure!(parse(CASTLE_IN_CHECK)?.in_check(), "castle-in-check position must be check");
        // king e1: d1 d2 e2 (f1, f2 covered by the king g2); rook h1: f1 g1 h2..h8.
        ensure!(
            parse(CASTLE_KING_ADJACENT)?.legal_moves().len() == 12,
            "king adjacency position: expected 12 moves, got {:?}",
            parse(CASTLE_KING_ADJACENT)?.legal_moves()
        );
        // 10 + 9 rook moves, 5 king steps, 2 castlings.
        let p = parse(CASTLE_BOTH)?;
        ensure!(p.legal_moves().len() == 26, "R3K2R position: expected 26 moves");
        let after = |mv: &str| -> Result<String, String> {
            let mut q = p.clone();
            ensure!(q.play(mv), "R3K2R position: {} rejected", mv);
            Ok(q.to_fen())
        };
        ensure!(after("e1g1")? == "r3k2r/8/8/8/8/8/8/R4RK1 b kq - 1 1", "e1g1: {}", after("e1g1")?);
        ensure!(after("e1c1")? == "r3k2r/8/8/8/8/8/8/2KR3R b kq - 1 1", "e1c1: {}", after("e1c1")?);
        ensure!(after("e1e2")? == "r3k2r/8/8/8/8/8/4K3/R6R b kq - 1 1", "e1e2: {}", after("e1e2")?);
        ensure!(after("h1h2")? == "r3k2r/8/8/8/8/8/7R/R3K3 b Qkq - 1 1", "h1h2: {}", after("h1h2")?);
        ensure!(after("a1b1")? == "r3k2r/8/8/8/8/8/8/1R2K2R b Kkq - 1 1", "a1b1: {}", after("a1b1")?);
        // rook takes rook on its home square: both sides lose the a-side right
        ensure!(after("a1a8")? == "R3k2r/8/8/8/8/8/8/4K2R b Kk - 0 1", "a1a8: {}", after("a1a8")?);
        ensure!(after("h1h8")? == "r3k2R/8/8/8/8/8/8/R3K3 b Qq - 0 1", "h1h8: {}", after("h1h8")?);
        // black castling moves the right rook
        let mut q = parse("r3k2r/8/8/8/8/8/8/R3K2R b KQkq - 0 1")?;
        play_all(&mut q, &["e8c8"])?;
        ensure!(q.to_fen() == "2kr3r/8/8/8/8/8/8/R3K2R w KQ - 1 2", "e8c8: {}", q.to_fen());
        let mut q = parse("r3k2r/8/8/8/8/8/8/R3K2R b KQkq - 0 1")?;
        play_all(&mut q, &["e8g8"])?;
        ensure!(q.to_fen() == "r4rk1/8/8/8/8/8/8/R3K2R w KQ - 1 2", "e8g8: {}", q.to_fen());
        // a rook that went away and came back does not restore the right
        let mut q = p.clone();
        play_all(&mut q, &["h1h2", "a8a7", "h2h1", "a7a8"])?;
        ensure!(q.castling() == "Qk", "rights after rook round trips: {}", q.castling());
        ensure!(!has_move(&q, "e1g1") && has_move(&q, "e1c1"), "castling after rook round trip");
    }

    // --- promotion capture on a rook home square -------------------------------------------
    {
        let p = parse(PROMO_CAPTURE)?;
        expect_moves(
            PROMO_CAPTURE,
            &[
                "e1d1", "e1d2", "e1e2", "e1f1", "e1f2", "g7g8q", "g7g8r", "g7g8b", "g7g8n", "g7h8q",
                "g7h8r", "g7h8b", "g7h8n",
            ],
        )?;
        let mut q = p.clone();
        ensure!(q.castling() == "k", "promotion capture: rights before");
        play_all(&mut q, &["g7h8q"])?;
        ensure!(q.castling() == "-", "promotion capture: black must lose 'k'");
        ensure!(q.to_fen() == "4k2Q/8/8/8/8/8/8/4K3 b - - 0 1", "promotion capture: {}", q.to_fen());
        ensure!(q.in_check() && !q.is_checkmate(), "promotion capture: black is in check");
        let mut q = p.clone();
        play_all(&mut q, &["g7g8n"])?;
        ensure!(q.to_fen() == "4k1Nr/8/8/8/8/8/8/4K3 b k - 0 1", "underpromotion: {}", q.to_fen());
        for bad in ["g7g8", "g7h8", "g7g8k", "g7g8p", "g7g8Q", "g7g8qq", "g7f8q"] {
            let mut q = p.clone();
            ensure!(!q.play(bad), "promotion position: play(\"{}\") must fail", bad);
            ensure!(q == p, "promotion position: failed play(\"{}\") changed the position", bad);
        }
    }

    // --- double check ----------------------------------------------------------------------
    {
        // Rook e8 and knight f3 both give check; the queen could take the knight but that is not enough.
        let p = parse(DOUBLE_CHECK)?;
        ensure!(p.in_check(), "double check: in check");
        expect_moves(DOUBLE_CHECK, &["e1f1", "e1f2"])?;
        ensure!(!p.is_checkmate() && !p.is_stalemate(), "double check: neither mate nor stalemate");
    }

    // --- stalemate and checkmate roots -----------------------------------------------------
    {
        let p = parse(STALEMATE)?;
        ensure!(p.legal_moves().is_empty(), "stalemate: no legal moves");
        ensure!(!p.in_check(), "stalemate: not in check");
        ensure!(p.is_stalemate() && !p.is_checkmate(), "stalemate flags");
        ensure!(p.perft(1) == 0 && p.perft(3) == 0, "stalemate perft");

        let mut p = Pos::startpos();
        play_all(&mut p, &["f2f3", "e7e5", "g2g4", "d8h4"])?;
        ensure!(p.to_fen() == FOOLS_MATE, "fool's mate FEN: {}", p.to_fen());
        ensure!(p == parse(FOOLS_MATE)?, "fool's mate position equals its parsed FEN");
        ensure!(p.legal_moves().is_empty(), "fool's mate: no legal moves");
        ensure!(p.in_check(), "fool's mate: in check");
        ensure!(p.is_checkmate() && !p.is_stalemate(), "fool's mate flags");
        let before = p.clone();
        ensure!(!p.play("e1f2") && p == before, "no move can be played when mated");
    }

    // --- 218 moves -------------------------------------------------------------------------
    {
        let p = parse(MOVES_218)?;
        let n = p.legal_moves().len();
        ensure!(n == 218, "218-move position: got {}", n);
        ensure!(p.perft(1) == 218, "218-move position: perft(1)");
        ensure!(p.piece_count() == 19, "218-move position: piece count {}", p.piece_count());
    }

    // --- illegal / malformed move text -----------------------------------------------------
    {
        let start = Pos::startpos();
        for bad in [
            "e2e5", "zz", "", "e2e4q", "e2e4 ", " e2e4", "E2E4", "e2-e4", "e2", "e2e", "e7e5", "e1e2",
            "e1g1", "a1a1", "0000", "e2e4e5", "i2i4", "e0e1", "e2e9", "\u{e9}2e4",
        ] {
            let mut p = start.clone();
            ensure!(!p.play(bad), "startpos: play(\"{}\") must fail", bad);
            ensure!(p == start, "startpos: failed play(\"{}\") changed the position", bad);
        }
        // A pinned piece may not move: knight e2 shields the king from the rook e8.
        let p = parse("4r2k/8/8/8/8/8/4N3/4K3 w - - 0 1")?;
        ensure!(!has_move(&p, "e2c3") && !has_move(&p, "e2g3"), "pinned knight must not move");
        ensure!(p.legal_moves().len() == 4, "pinned knight position: d1 d2 f1 f2 only");
    }

    // --- FEN parsing -----------------------------------------------------------------------
    {
        let p4 = parse("4k3/8/8/8/8/8/8/4K3 b - -")?;
        ensure!(p4.to_fen() == "4k3/8/8/8/8/8/8/4K3 b - - 0 1", "4-field defaults: {}", p4.to_fen());
        let p5 = parse("4k3/8/8/8/8/8/8/4K3 b - - 7")?;
        ensure!(p5.to_fen() == "4k3/8/8/8/8/8/8/4K3 b - - 7 1", "5-field defaults: {}", p5.to_fen());
        let p6 = parse("  4k3/8/8/8/8/8/8/4K3   b  -  -  7  30 ")?;
        ensure!(p6.to_fen() == "4k3/8/8/8/8/8/8/4K3 b - - 7 30", "whitespace: {}", p6.to_fen());
        ensure!(!p6.white_to_move(), "black to move");
        ensure!(parse("r3k2r/8/8/8/8/8/8/R3K2R w qkQK - 0 1")?.castling() == "KQkq", "castling order");
        for bad in [
            "",
            "8/8/8/8/8/8/8/8",
            "4k3/8/8/8/8/8/8/4K3",
            "4k3/8/8/8/8/8/8/4K3 w",
            "4k3/8/8/8/8/8/8/4K3 w -",
            "4k3/8/8/8/8/8/8/4K3 w - - 0 1 extra",
            "4k3/8/8/8/8/8/4K3 w - - 0 1",
            "4k3/8/8/8/8/8/8/8/4K3 w - - 0 1",
            "4k4/8/8/8/8/8/8/4K3 w - - 0 1",
            "4k2/8/8/8/8/8/8/4K3 w - - 0 1",
            "4k3/9/8/8/8/8/8/4K3 w - - 0 1",
            "4k3/44/8/8/8/8/8/4K3 w - - 0 1",
            "4k3/8/8/8/8/8/8/4K2x w - - 0 1",
            "4k3/8/8/8/8/8/8/4K3 x - - 0 1",
            "4k3/8/8/8/8/8/8/4K3 W - - 0 1",
            "4k3/8/8/8/8/8/8/4K3 w KQx - 0 1",
            "4k3/8/8/8/8/8/8/4K3 w KK - 0 1",
            "4k3/8/8/8/8/8/8/4K3 w - e9 0 1",
            "4k3/8/8/8/8/8/8/4K3 w - e4 0 1",
            "4k3/8/8/8/8/8/8/4K3 w - e 0 1",
            "4k3/8/8/8/8/8/8/4K3 w - - x 1",
            "4k3/8/8/8/8/8/8/4K3 w - - -1 1",
            "4k3/8/8/8/8/8/8/4K3 w - - 0 +1",
            "8/8/8/8/8/8/8/4K3 w - - 0 1",
            "4k3/8/8/8/8/8/8/8 w - - 0 1",
            "4k3/8/8/8/8/8/8/3KK3 w - - 0 1",
            "P3k3/8/8/8/8/8/8/4K3 w - - 0 1",
            "4k3/8/8/8/8/8/8/4K2p w - - 0 1",
            // white is in check but it is black's move
            "4k3/8/8/8/8/8/8/4K2r b - - 0 1",
            // kings next to each other
            "8/8/8/8/8/8/8/3kK3 w - - 0 1",
        ] {
            ensure!(Pos::from_fen(bad).is_err(), "malformed FEN \"{}\" must be rejected", bad);
        }
        // ... whereas the side to move being in check is fine
        ensure!(parse("4k3/8/8/8/8/8/8/4K2r w - - 0 1")?.in_check(), "white in check, white to move");
    }

    // --- round trips -----------------------------------------------------------------------
    for fen in [
        START_FEN,
        KIWIPETE,
        POSITION3,
        POSITION4,
        POSITION5,
        POSITION6,
        EP_RANK_PIN,
        EP_DIAG_PIN_CAPTURER,
        EP_DIAG_PIN_VICTIM,
        CASTLE_B1_ATTACKED,
        CASTLE_C1_ATTACKED,
        CASTLE_D1_ATTACKED,
        CASTLE_F1_ATTACKED,
        CASTLE_G1_ATTACKED,
        CASTLE_H1_ATTACKED,
        CASTLE_FREE,
        CASTLE_IN_CHECK,
        CASTLE_KING_ADJACENT,
        CASTLE_BLACK_B8_ATTACKED,
        CASTLE_BLACK_D8_ATTACKED,
        CASTLE_BLOCKED,
        CASTLE_NO_RIGHT,
        CASTLE_BOTH,
        PROMO_CAPTURE,
        DOUBLE_CHECK,
        STALEMATE,
        FOOLS_MATE,
        MOVES_218,
    ] {
        round_trip(fen)?;
    }

    // --- every legal move text plays, and leads where apply() says --------------------------
    for fen in [START_FEN, KIWIPETE, POSITION4, POSITION5, MOVES_218] {
        let p = parse(fen)?;
        for m in p.legal_moves() {
            let mut q = p.clone();
            ensure!(q.play(&m), "\"{}\": legal move {} was not playable", fen, m);
            ensure!(q.white_to_move() != p.white_to_move(), "\"{}\": side must flip after {}", fen, m);
            round_trip(&q.to_fen())?;
        }
    }
    Ok(())
}

/// Runs the built-in self test: published perft constants plus hand-worked unit cases.
/// `thorough` adds the deeper perft runs. Returns Err(description) on the first mismatch.
pub fn self_test(thorough: bool) -> Result<(), String> {
    unit_cases()?;
    perft_cases(thorough)?;
    Ok(())
}

#[cfg(test)]
mod tests {
    #[test]
    fn selftest() {
        super::self_test(false).unwrap()
    }
}

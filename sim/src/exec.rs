//! Executes a case under the simulator: the engine's real entry points run as simulator threads.

use crate::case::{Case, DItem, Mode};
use crate::chess::{move_struct::Move, Game};
use crate::search::TranspositionTable;
use crate::verif_shim::sched::{self, Outcome};
use crate::verif_shim::sync::AtomicBool;
use arrayvec::ArrayVec;
use nohash_hasher::BuildNoHashHasher;

pub fn run_case(case: &Case) -> Outcome {
    let mut params = case.params.clone();
    match case.mode {
        Mode::Session => {
            params.search_on_main = false;
            let steps = case.steps.clone();
            sched::run(
                params,
                case.plan.clone(),
                || crate::uci::uci_talk().map_err(|e| format!("{:#}", e)),
                Some(move || crate::gui::run_script(steps)),
            )
        }
        Mode::Autoplay => {
            params.search_on_main = true;
            let ms = case.autoplay_ms;
            sched::run(
                params,
                case.plan.clone(),
                move || {
                    crate::autoplay::autoplay(ms);
                    Ok(())
                },
                None::<fn()>,
            )
        }
        Mode::Direct => {
            params.search_on_main = true;
            let items = case.items.clone();
            sched::run(params, case.plan.clone(), move || run_items(items), None::<fn()>)
        }
    }
}

/// Builds the engine's game exactly as `command_position` does.
pub fn build_game(root: &str, moves: &[String]) -> Result<Game, String> {
    let mut game = if root == "startpos" {
        Game::default()
    } else {
        Game::new(root.strip_prefix("fen ").unwrap_or(root)).map_err(|e| format!("engine rejects root '{}': {:#}", root, e))?
    };
    for m in moves {
        let Some(mv) = Move::from_uci_notation(m, &game) else {
            return Err(format!("engine cannot read move {}", m));
        };
        let mut list = ArrayVec::new();
        game.get_moves(&mut list, true);
        if list.iter().any(|&a| a == mv) {
            game.push_history(mv);
        } else {
            return Err(format!("engine refuses move {}", m));
        }
    }
    Ok(game)
}

/// Direct-call mode: one table shared by a sequence of searches called straight through
/// `search::get_best_move_until_stop` (the same function `uci.rs` and `autoplay.rs` call).
fn run_items(items: Vec<DItem>) -> Result<(), String> {
    let mut table: TranspositionTable = TranspositionTable::with_capacity_and_hasher(1024, BuildNoHashHasher::default());
    for (k, it) in items.iter().enumerate() {
        if it.fresh {
            table.clear();
        }
        let game = match build_game(&it.root, &it.moves) {
            Ok(g) => g,
            Err(e) => {
                sched::note(format!("item {} skipped: {}", k, e));
                continue;
            }
        };
        if let Some(sw) = &it.sweep {
            // reference run: how many polls does the unstopped search make, and where are its iteration boundaries
            let mut t = table.clone();
            let (p, bounds) = one_search(k, &game, &mut t, it.depth, None);
            let mut ks: Vec<u64> = vec![];
            if p <= sw.all_upto {
                ks.extend(0..=p);
            } else {
                ks.extend(0..=sw.head.min(p));
                for b in bounds {
                    for d in [b.saturating_sub(1), b, b + 1] {
                        if d <= p {
                            ks.push(d);
                        }
                    }
                }
                let mut s = sw.seed;
                for _ in 0..sw.samples {
                    ks.push(sched::splitmix(&mut s) % (p + 1));
                }
                ks.push(p);
                ks.sort();
                ks.dedup();
            }
            for kk in ks {
                let mut t = table.clone();
                one_search(k, &game, &mut t, it.depth, Some(kk));
            }
        } else if it.isolated {
            let mut t = table.clone();
            one_search(k, &game, &mut t, it.depth, it.stop_at);
        } else {
            one_search(k, &game, &mut table, it.depth, it.stop_at);
        }
    }
    Ok(())
}

/// returns (polls made, poll counts at which `info depth` lines were printed)
fn one_search(k: usize, game: &Game, table: &mut TranspositionTable, depth: Option<u8>, stop_at: Option<u64>) -> (u64, Vec<u64>) {
    match stop_at {
        Some(s) => sched::note(format!("item {} begin stop={}", k, s)),
        None => sched::note(format!("item {} begin stop=-", k)),
    }
    sched::item_begin(stop_at);
    let flag = AtomicBool::new(true);
    let best = crate::search::get_best_move_until_stop(game, table, &flag, depth);
    match best {
        Some(m) => println!("bestmove {}", m.uci_notation()),
        None => println!("bestmove none"),
    }
    let (_, polls) = sched::stats_now();
    sched::note(format!("item {} end polls={}", k, polls));
    (polls, sched::item_info_marks())
}

//! The simulated chess GUI: a simulator thread that executes a case's script against the
//! engine's stdin and keeps its own game record on the reference rules model.

use crate::case::{GStep, GK};
use crate::model::Pos;
use crate::verif_shim::sched;

pub struct GameRec {
    pub root: String,
    pub moves: Vec<String>,
}

impl GameRec {
    pub fn pos(&self) -> Option<Pos> {
        let mut p = root_pos(&self.root)?;
        for m in &self.moves {
            if !p.play(m) {
                return None;
            }
        }
        Some(p)
    }
    pub fn command(&self, fen_fields: usize) -> String {
        // `fen_fields` < 6: the FEN is written without its last counters
        let root = match self.root.strip_prefix("fen ") {
            Some(f) if fen_fields < 6 => format!("fen {}", f.split_ascii_whitespace().take(fen_fields.max(4)).collect::<Vec<_>>().join(" ")),
            _ => self.root.clone(),
        };
        if self.moves.is_empty() {
            format!("position {}", root)
        } else {
            format!("position {} moves {}", root, self.moves.join(" "))
        }
    }
}

/// `startpos` or `fen <fen>` -> model position
pub fn root_pos(root: &str) -> Option<Pos> {
    if root == "startpos" {
        Some(Pos::startpos())
    } else {
        Pos::from_fen(root.strip_prefix("fen ").unwrap_or(root)).ok()
    }
}

pub fn run_script(steps: Vec<GStep>, tags: Vec<String>) {
    // `movestogo=N`: every clock `go` of this session also carries the token (the pinned engine ignores it)
    let mtg: String = tags.iter().find_map(|t| t.strip_prefix("movestogo=")).map(|n| format!(" movestogo {}", n)).unwrap_or_default();
    let fen_fields: usize = tags.iter().find_map(|t| t.strip_prefix("fenfields=")).and_then(|n| n.parse().ok()).unwrap_or(6);
    // `searchmoves`: timed `go`s list two legal root moves first (`go searchmoves m1 m2 wtime ...`; the pinned engine
    // ignores the token and the moves)
    let with_sm = tags.iter().any(|t| t == "searchmoves");
    let sm = |rec: &GameRec| -> String {
        if !with_sm {
            return String::new();
        }
        match rec.pos().map(|p| p.legal_moves()) {
            Some(l) if l.len() >= 2 => format!(" searchmoves {} {}", l[0], l[l.len() - 1]),
            _ => String::new(),
        }
    };
    let mut rec = GameRec { root: "startpos".into(), moves: vec![] };
    let mut readies: u64 = 0;
    let mut closed = false;
    for st in steps {
        match st.k {
            GK::Raw(line) => {
                if line.split_ascii_whitespace().next() == Some("isready") {
                    readies += 1;
                }
                let line = match line.strip_prefix("go movetime ") {
                    Some(rest) if with_sm => format!("go{} movetime {}", sm(&rec), rest),
                    _ => line,
                };
                sched::gui_send(st.id, &line);
            }
            GK::NewGame { root, pre } => {
                rec = GameRec { root, moves: pre };
            }
            GK::PosCur => {
                let c = rec.command(fen_fields);
                sched::gui_send(st.id, &c);
            }
            GK::Advance { best, replies } => {
                if let Some(mut p) = rec.pos() {
                    if best {
                        if let Some(b) = sched::gui_last_bestmove() {
                            if p.play(&b) {
                                rec.moves.push(b);
                            }
                        }
                    }
                    for r in replies {
                        let l = p.legal_moves();
                        if l.is_empty() {
                            break;
                        }
                        let m = l[r as usize % l.len()].clone();
                        p.play(&m);
                        rec.moves.push(m);
                    }
                }
            }
            GK::Retreat(n) => {
                for _ in 0..n {
                    rec.moves.pop();
                }
            }
            GK::RepeatAfterBest => {
                let rev = |m: &str| -> Option<String> {
                    if m.len() == 4 {
                        Some(format!("{}{}", &m[2..4], &m[0..2]))
                    } else {
                        None
                    }
                };
                if let (Some(p), Some(m), Some(b)) = (rec.pos(), rec.moves.last().cloned(), sched::gui_last_bestmove()) {
                    if let (Some(mr), Some(br)) = (rev(&m), rev(&b)) {
                        let mut q = p.clone();
                        let seq = [b.clone(), mr, br, m.clone()];
                        if seq.iter().all(|x| q.play(x)) && q.placement() == p.placement() && q.castling() == p.castling() {
                            rec.moves.extend(seq);
                        }
                    }
                }
            }
            GK::GoClock { own, own_inc, opp, opp_inc } => {
                let white = rec.pos().map_or(true, |p| p.white_to_move());
                let line = if white {
                    format!("go{} wtime {} btime {} winc {} binc {}{}", sm(&rec), own, opp, own_inc, opp_inc, mtg)
                } else {
                    format!("go{} wtime {} btime {} winc {} binc {}{}", sm(&rec), opp, own, opp_inc, own_inc, mtg)
                };
                sched::gui_send(st.id, &line);
            }
            GK::GoClockDepth { own, own_inc, opp, opp_inc, depth } => {
                let white = rec.pos().map_or(true, |p| p.white_to_move());
                let line = if white {
                    format!("go depth {} wtime {} btime {} winc {} binc {}", depth, own, opp, own_inc, opp_inc)
                } else {
                    format!("go depth {} wtime {} btime {} winc {} binc {}", depth, opp, own, opp_inc, own_inc)
                };
                sched::gui_send(st.id, &line);
            }
            GK::AwaitBest => sched::gui_await_best(),
            GK::AwaitReady => sched::gui_await_ready(readies),
            GK::Delay(ns) => sched::gui_delay(ns),
            GK::AfterPolls(n) => sched::gui_after_polls(n),
            GK::Close => {
                sched::gui_close();
                closed = true;
            }
        }
    }
    if !closed {
        sched::gui_close();
    }
}

//! `AtomicBool` and `Mutex` with std's API (including poisoning) whose every operation is a
//! schedule point of the simulator.
use super::sched;
pub use std::sync::atomic::Ordering::Relaxed;
use std::sync::{LockResult, PoisonError, TryLockError};

pub struct AtomicBool {
    id: usize,
    v: std::sync::atomic::AtomicBool,
}
impl AtomicBool {
    pub fn new(b: bool) -> Self {
        Self { id: sched::flag_new(), v: std::sync::atomic::AtomicBool::new(b) }
    }
    #[inline]
    pub fn load(&self, _o: std::sync::atomic::Ordering) -> bool {
        sched::flag_load(self.id, &self.v)
    }
    pub fn store(&self, b: bool, _o: std::sync::atomic::Ordering) {
        sched::flag_store(self.id, &self.v, b)
    }
    pub fn sim_id(&self) -> usize {
        self.id
    }
    // the rest of std's API, so that an edit of the engine that uses it still runs under the simulator
    pub fn swap(&self, b: bool, _o: std::sync::atomic::Ordering) -> bool {
        let old = sched::flag_load(self.id, &self.v);
        sched::flag_store(self.id, &self.v, b);
        old
    }
    pub fn fetch_and(&self, b: bool, o: std::sync::atomic::Ordering) -> bool {
        let old = sched::flag_load(self.id, &self.v);
        sched::flag_store(self.id, &self.v, old & b);
        let _ = o;
        old
    }
    pub fn fetch_or(&self, b: bool, o: std::sync::atomic::Ordering) -> bool {
        let old = sched::flag_load(self.id, &self.v);
        sched::flag_store(self.id, &self.v, old | b);
        let _ = o;
        old
    }
    pub fn compare_exchange(&self, cur: bool, new: bool, _s: std::sync::atomic::Ordering, _f: std::sync::atomic::Ordering) -> Result<bool, bool> {
        let old = sched::flag_load(self.id, &self.v);
        if old == cur {
            sched::flag_store(self.id, &self.v, new);
            Ok(old)
        } else {
            Err(old)
        }
    }
    pub fn into_inner(self) -> bool {
        self.v.into_inner()
    }
}
impl Default for AtomicBool {
    fn default() -> Self {
        Self::new(false)
    }
}
impl std::fmt::Debug for AtomicBool {
    fn fmt(&self, f: &mut std::fmt::Formatter<'_>) -> std::fmt::Result {
        write!(f, "AtomicBool({:?})", self.v)
    }
}

pub struct Mutex<T> {
    id: usize,
    inner: std::sync::Mutex<T>,
}
pub struct MutexGuard<'a, T> {
    g: Option<std::sync::MutexGuard<'a, T>>,
    id: usize,
}
impl<T> Mutex<T> {
    pub fn new(t: T) -> Self {
        Self { id: sched::mutex_new(), inner: std::sync::Mutex::new(t) }
    }
    pub fn lock(&self) -> LockResult<MutexGuard<'_, T>> {
        loop {
            sched::mutex_before_lock();
            match self.inner.try_lock() {
                Ok(g) => {
                    sched::mutex_acquired(false);
                    return Ok(MutexGuard { g: Some(g), id: self.id });
                }
                Err(TryLockError::Poisoned(p)) => {
                    sched::mutex_acquired(true);
                    return Err(PoisonError::new(MutexGuard { g: Some(p.into_inner()), id: self.id }));
                }
                Err(TryLockError::WouldBlock) => sched::mutex_blocked(self.id),
            }
        }
    }
}
impl<T> Mutex<T> {
    pub fn try_lock(&self) -> std::sync::TryLockResult<MutexGuard<'_, T>> {
        sched::mutex_before_lock();
        match self.inner.try_lock() {
            Ok(g) => {
                sched::mutex_acquired(false);
                Ok(MutexGuard { g: Some(g), id: self.id })
            }
            Err(TryLockError::Poisoned(p)) => {
                sched::mutex_acquired(true);
                Err(TryLockError::Poisoned(PoisonError::new(MutexGuard { g: Some(p.into_inner()), id: self.id })))
            }
            Err(TryLockError::WouldBlock) => Err(TryLockError::WouldBlock),
        }
    }
    pub fn is_poisoned(&self) -> bool {
        self.inner.is_poisoned()
    }
    pub fn into_inner(self) -> LockResult<T> {
        self.inner.into_inner()
    }
    pub fn get_mut(&mut self) -> LockResult<&mut T> {
        self.inner.get_mut()
    }
}
impl<T: Default> Default for Mutex<T> {
    fn default() -> Self {
        Self::new(T::default())
    }
}
impl<T> std::ops::Deref for MutexGuard<'_, T> {
    type Target = T;
    fn deref(&self) -> &T {
        self.g.as_ref().unwrap()
    }
}
impl<T> std::ops::DerefMut for MutexGuard<'_, T> {
    fn deref_mut(&mut self) -> &mut T {
        self.g.as_mut().unwrap()
    }
}
impl<T> Drop for MutexGuard<'_, T> {
    fn drop(&mut self) {
        // release the real lock first (this is also where std marks it poisoned during a panic)
        self.g.take();
        sched::mutex_unlocked(self.id);
    }
}

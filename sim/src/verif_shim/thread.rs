//! `std::thread::{spawn, sleep, JoinHandle}` on the simulator's threads and clock.
use super::sched;

pub struct JoinHandle<T> {
    id: sched::Tid,
    slot: sched::Slot<T>,
}

pub fn spawn<F, T>(f: F) -> JoinHandle<T>
where
    F: FnOnce() -> T + Send + 'static,
    T: Send + 'static,
{
    let (id, slot) = sched::spawn_thread(f);
    JoinHandle { id, slot }
}

impl<T> JoinHandle<T> {
    pub fn join(self) -> std::thread::Result<T> {
        sched::join_thread(self.id, &self.slot)
    }
}

pub fn sleep(d: std::time::Duration) {
    sched::sleep_ns(d.as_nanos().min(u64::MAX as u128) as u64)
}

impl<T> JoinHandle<T> {
    pub fn is_finished(&self) -> bool {
        sched::yield_point(sched::Pt::Join);
        sched::with(|i, _| i.th[self.id].st == sched::St::Done)
    }
}

pub fn yield_now() {
    sched::yield_point(sched::Pt::Sleep);
}

/// `std::time::Instant` on the simulated clock
#[derive(Clone, Copy, Debug, PartialEq, Eq, PartialOrd, Ord)]
pub struct Instant(u64);
impl Instant {
    pub fn now() -> Instant {
        Instant(sched::with(|i, _| i.now))
    }
    pub fn elapsed(&self) -> std::time::Duration {
        std::time::Duration::from_nanos(Instant::now().0.saturating_sub(self.0))
    }
    pub fn duration_since(&self, earlier: Instant) -> std::time::Duration {
        std::time::Duration::from_nanos(self.0.saturating_sub(earlier.0))
    }
    pub fn saturating_duration_since(&self, earlier: Instant) -> std::time::Duration {
        self.duration_since(earlier)
    }
}
impl std::ops::Add<std::time::Duration> for Instant {
    type Output = Instant;
    fn add(self, d: std::time::Duration) -> Instant {
        Instant(self.0.saturating_add(d.as_nanos().min(u64::MAX as u128) as u64))
    }
}
impl std::ops::Sub<Instant> for Instant {
    type Output = std::time::Duration;
    fn sub(self, o: Instant) -> std::time::Duration {
        self.duration_since(o)
    }
}

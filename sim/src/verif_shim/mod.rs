//! The simulator's side of the import seam (`--cfg daniel729_chess_verif`): the engine's
//! `uci.rs`, `search.rs` and `autoplay.rs` take these names instead of the `std` ones.
pub mod hashmap;
pub mod sched;
pub mod stdio;
pub mod sync;
pub mod thread;

/// Names beyond the ones the engine uses today, so that an edit which adds one to the cfg'd-out
/// `use std::{..}` block still compiles here (simulated where scheduling or time matters, std otherwise).
pub mod extra {
    pub use super::sync::MutexGuard;
    pub use super::thread::{sleep, spawn, yield_now, Instant};
    pub use ::std::collections::{BTreeMap, BTreeSet, HashSet, VecDeque};
    pub use ::std::io::{self, BufRead, Read, Write};
    pub use ::std::sync::atomic::Ordering::{self, AcqRel, Acquire, Release, SeqCst};
    pub use ::std::sync::atomic::{AtomicI32, AtomicI64, AtomicU32, AtomicU64, AtomicU8, AtomicUsize};
    pub use ::std::sync::{atomic, mpsc, Condvar, RwLock};
    pub use ::std::time::{self, SystemTime};
}

pub mod uci_prelude {
    pub use super::extra::*;
    pub use super::hashmap::HashMap;
    pub use super::stdio::stdin;
    pub use super::sync::{AtomicBool, Mutex, Relaxed};
    pub use super::thread::{self, JoinHandle};
    pub use ::std::str::SplitAsciiWhitespace;
    pub use ::std::sync::Arc;
    pub use ::std::time::Duration;
    pub use super::std_shadow as std;
}

pub mod search_prelude {
    pub use super::extra::*;
    pub use super::hashmap::HashMap;
    pub use super::sync::{AtomicBool, Mutex, Relaxed};
    pub use super::thread::{self, JoinHandle};
    pub use ::std::sync::Arc;
    pub use ::std::time::Duration;
    pub use super::std_shadow as std;
}

pub mod autoplay_prelude {
    pub use super::extra::*;
    pub use super::hashmap::HashMap;
    pub use super::sync::{AtomicBool, Mutex, Relaxed};
    pub use super::thread::{self, JoinHandle};
    pub use ::std::sync::Arc;
    pub use ::std::time::Duration;
    pub use super::std_shadow as std;
}

/// Shadows the extern crate name `std` inside the three files that take a prelude (glob imports rank above the
/// extern prelude). `autoplay.rs` writes `std::thread::spawn` / `std::thread::sleep` in full, and an edit of
/// `uci.rs` or `search.rs` may do the same: threads, sleeping, the clock, the mutex, the stop flag, stdin and the
/// table are the simulator's under whatever path they are named. Everything else of `std` is re-exported as it is.
pub mod std_shadow {
    pub use ::std::{alloc, any, array, ascii, borrow, boxed, cell, char, clone, cmp, convert, default, env, error, ffi, fmt, fs, future, hash, hint, iter, marker, mem, net, num, ops, option, panic, path, pin, prelude, primitive, process, ptr, rc, result, slice, str, string, task, vec};
    pub use ::std::{f32, f64, i128, i16, i32, i64, i8, isize, u128, u16, u32, u64, u8, usize};
    pub use ::std::{assert, assert_eq, assert_ne, dbg, debug_assert, debug_assert_eq, debug_assert_ne, eprint, eprintln, format, format_args, matches, thread_local, todo, unimplemented, unreachable, write, writeln};
    pub mod thread {
        pub use crate::verif_shim::thread::{sleep, spawn, yield_now, JoinHandle};
        pub use ::std::thread::*;
    }
    pub mod time {
        pub use crate::verif_shim::thread::Instant;
        pub use ::std::time::*;
    }
    pub mod io {
        pub use crate::verif_shim::stdio::stdin;
        pub use ::std::io::*;
    }
    pub mod collections {
        pub use crate::verif_shim::hashmap::HashMap;
        pub use ::std::collections::*;
        pub mod hash_map {
            pub use crate::verif_shim::hashmap::HashMap;
            pub use ::std::collections::hash_map::*;
        }
    }
    pub mod sync {
        pub use crate::verif_shim::sync::{Mutex, MutexGuard};
        pub use ::std::sync::*;
        pub mod atomic {
            pub use crate::verif_shim::sync::AtomicBool;
            pub use ::std::sync::atomic::*;
        }
    }
}

//! Root positions for the workloads. `class` steers depth and budget choices:
//! 0 = tiny (few pieces, searches reach great depth quickly), 1 = small, 2 = full middlegame,
//! 3 = queen-heavy (one quiescence search can cost milliseconds of real CPU: depth 1-2 only, never re-run in sweeps).

pub struct Root {
    pub name: &'static str,
    pub fen: &'static str, // "startpos" or a FEN
    pub class: u8,
}

pub const ROOTS: &[Root] = &[
    Root { name: "startpos", fen: "startpos", class: 2 },
    Root { name: "kiwipete", fen: "r3k2r/p1ppqpb1/bn2pnp1/3PN3/1p2P3/2N2Q1p/PPPBBPPP/R3K2R w KQkq - 0 1", class: 2 },
    Root { name: "perft3", fen: "8/2p5/3p4/KP5r/1R3p1k/8/4P1P1/8 w - - 0 1", class: 1 },
    Root { name: "perft4", fen: "r3k2r/Pppp1ppp/1b3nbN/nP6/BBP1P3/q4N2/Pp1P2PP/R2Q1RK1 w kq - 0 1", class: 2 },
    Root { name: "perft4-mirror", fen: "r2q1rk1/pP1p2pp/Q4n2/bbp1p3/Np6/1B3NBn/pPPP1PPP/R3K2R b KQ - 0 1", class: 2 },
    Root { name: "perft5", fen: "rnbq1k1r/pp1Pbppp/2p5/8/2B5/8/PPP1NnPP/RNBQK2R w KQ - 1 8", class: 2 },
    Root { name: "perft6", fen: "r4rk1/1pp1qppp/p1np1n2/2b1p1B1/2B1P1b1/P1NP1N2/1PP1QPPP/R4RK1 w - - 0 10", class: 2 },
    Root { name: "KvK", fen: "8/8/8/8/8/8/k7/2K5 w - - 0 1", class: 0 },
    Root { name: "KvK-b", fen: "8/8/4k3/8/8/3K4/8/8 b - - 0 1", class: 0 },
    Root { name: "KPK", fen: "8/8/8/4k3/8/8/4P3/4K3 w - - 0 1", class: 0 },
    Root { name: "KPK-b", fen: "4k3/4p3/8/8/4K3/8/8/8 b - - 0 1", class: 0 },
    Root { name: "KRK", fen: "8/8/8/4k3/8/8/8/R3K3 w Q - 0 1", class: 0 },
    Root { name: "KQK", fen: "8/8/8/4k3/8/8/8/3QK3 w - - 0 1", class: 0 },
    Root { name: "KBNK", fen: "8/8/8/4k3/8/8/8/2B1KN2 w - - 0 1", class: 0 },
    Root { name: "pawn-wall", fen: "4k3/8/8/p1p1p1p1/P1P1P1P1/8/8/4K3 w - - 0 1", class: 0 },
    Root { name: "mate-in-1", fen: "6k1/5ppp/8/8/8/8/5PPP/R5K1 w - - 0 1", class: 1 },
    Root { name: "mate-in-1-b", fen: "r5k1/5ppp/8/8/8/8/5PPP/6K1 b - - 0 1", class: 1 },
    Root { name: "mate-in-2", fen: "r1bq2r1/b4pk1/p1pp1p2/1p2pP2/1P2P1PB/3P4/1PPQ2P1/R3K2R w - - 0 1", class: 2 },
    Root { name: "mate-in-2-small", fen: "7k/8/5K2/8/8/8/8/6R1 w - - 0 1", class: 0 },
    Root { name: "mated", fen: "rnb1kbnr/pppp1ppp/8/4p3/6Pq/5P2/PPPPP2P/RNBQKBNR w KQkq - 1 3", class: 2 },
    Root { name: "stalemated", fen: "7k/5Q2/6K1/8/8/8/8/8 b - - 0 1", class: 0 },
    Root { name: "single-reply", fen: "6k1/8/8/8/8/8/6PP/r5K1 w - - 0 1", class: 0 },
    Root { name: "single-reply-b", fen: "R5k1/6pp/8/8/8/8/8/6K1 b - - 0 1", class: 0 },
    Root { name: "ep-rich", fen: "rnbqkbnr/ppp1p1pp/8/3pPp2/8/8/PPPP1PPP/RNBQKBNR w KQkq f6 0 3", class: 2 },
    Root { name: "ep-both", fen: "4k3/8/8/2pPp3/2PpP3/8/8/4K3 w - c6 0 1", class: 0 },
    Root { name: "ep-b", fen: "4k3/8/8/8/2pPp3/8/8/4K3 b - d3 0 1", class: 0 },
    Root { name: "promo-rich", fen: "4k3/1P6/8/8/8/8/1p6/4K3 w - - 0 1", class: 0 },
    Root { name: "promo-capture", fen: "r1n1k2r/1P4P1/8/8/8/8/1p4p1/R1N1K2R w KQkq - 0 1", class: 1 },
    Root { name: "castle-only", fen: "r3k2r/8/8/8/8/8/8/R3K2R w KQkq - 0 1", class: 1 },
    Root { name: "castle-only-b", fen: "r3k2r/8/8/8/8/8/8/R3K2R b KQkq - 0 1", class: 1 },
    Root { name: "castle-w-only", fen: "r3k2r/8/8/8/8/8/8/R3K2R w KQ - 0 1", class: 1 },
    Root { name: "castle-none", fen: "r3k2r/8/8/8/8/8/8/R3K2R w - - 0 1", class: 1 },
    Root { name: "218-moves", fen: "R6R/3Q4/1Q4Q1/4Q3/2Q4Q/Q4Q2/pp1Q4/kBNN1KB1 w - - 0 1", class: 3 },
    Root { name: "nine-queens", fen: "6k1/5ppp/8/8/8/QQQQQ3/8/QQQQK3 w - - 0 1", class: 3 },
    Root { name: "queens-both", fen: "qqqqk3/8/8/8/8/8/8/QQQQK3 w - - 0 1", class: 3 },
    Root { name: "rook-endgame", fen: "8/5pk1/6p1/8/3R4/6P1/r4P1K/8 w - - 0 1", class: 1 },
    Root { name: "minor-endgame", fen: "8/2k5/3b4/8/8/3N4/2K1P3/8 w - - 0 1", class: 0 },
    Root { name: "italian", fen: "r1bqk1nr/pppp1ppp/2n5/2b1p3/2B1P3/5N2/PPPP1PPP/RNBQK2R w KQkq - 4 4", class: 2 },
    Root { name: "sicilian-b", fen: "rnbqkbnr/pp1ppppp/8/2p5/4P3/5N2/PPPP1PPP/RNBQKB1R b KQkq - 1 2", class: 2 },
    Root { name: "knights-tour", fen: "4k3/8/8/8/8/8/8/N3K2N w - - 0 1", class: 0 },
    // tactical middlegames and rule corner cases that the repository's own perft tests do not visit
    Root { name: "wac1", fen: "2rr3k/pp3pp1/1nnqbN1p/3pN3/2pP4/2P3Q1/PPB4P/R4RK1 w - - 0 1", class: 2 },
    Root { name: "wac2", fen: "8/7p/5k2/5p2/p1p2P2/Pr1pPK2/1P1R3P/8 b - - 0 1", class: 1 },
    Root { name: "wac3", fen: "5rk1/1ppb3p/p1pb4/6q1/3P1p1r/2P1R2P/PP1BQ1P1/5RKN w - - 0 1", class: 2 },
    Root { name: "wac4", fen: "r1bq2rk/pp3pbp/2p1p1pQ/7P/3P4/2PB1N2/PP3PPR/2KR4 w - - 0 1", class: 2 },
    Root { name: "wac5", fen: "5k2/6pp/p1qN4/1p1p4/3P4/2PKP2Q/PP3r2/3R4 b - - 0 1", class: 2 },
    Root { name: "bk1", fen: "1k1r4/pp1b1R2/3q2pp/4p3/2B5/4Q3/PPP2B2/2K5 b - - 0 1", class: 2 },
    Root { name: "ep-only-move-b", fen: "8/6R1/R7/7k/6Pp/4N3/8/K7 b - g3 0 1", class: 0 },
    Root { name: "ep-only-move-w", fen: "k7/8/4n3/6pP/7K/r7/6r1/8 w - g6 0 1", class: 0 },
    Root { name: "ep-opening-b", fen: "rnbqkbnr/ppp1pppp/8/8/P2pP3/8/1PPP1PPP/RNBQKBNR b KQkq e3 0 3", class: 2 },
    Root { name: "ep-opening-w", fen: "rnbqkbnr/1ppp1ppp/8/p2Pp3/8/8/PPP1PPPP/RNBQKBNR w KQkq e6 0 3", class: 2 },
    Root { name: "ep-then-promo-w", fen: "7k/7p/4p3/4Pp2/6p1/8/1p3P1K/2R5 w - - 0 1", class: 1 },
    Root { name: "ep-then-promo-w2", fen: "7k/7p/4p3/4Pp2/5Pp1/8/1p5K/2R5 b - f3 0 1", class: 1 },
    Root { name: "ep-then-promo-b", fen: "2r5/1P3p1k/8/6P1/4pP2/4P3/7P/7K b - - 0 1", class: 1 },
    Root { name: "ep-then-promo-b2", fen: "2r5/1P5k/8/5pP1/4pP2/4P3/7P/7K w - f6 0 1", class: 1 },
    Root { name: "ep-rank-pin", fen: "8/8/8/KPp4r/8/8/8/4k3 w - c6 0 1", class: 0 },
    Root { name: "ep-diag-pin", fen: "4k3/6b1/8/3pP3/8/2K5/8/8 w - d6 0 1", class: 0 },
    Root { name: "castle-in-check", fen: "r3k2r/8/8/8/4q3/8/8/R3K2R w KQkq - 0 1", class: 1 },
    Root { name: "castle-through-attack", fen: "r3k2r/8/8/8/8/5q2/8/R3K2R w KQkq - 0 1", class: 1 },
    Root { name: "castle-b1-attacked", fen: "r3k2r/8/8/8/8/8/1q6/R3K2R w KQkq - 0 1", class: 1 },
    Root { name: "pins-everywhere", fen: "4k3/8/4r3/8/1b2q3/8/3NBN2/r2QK2R w K - 0 1", class: 1 },
    Root { name: "double-check", fen: "4r2k/8/8/8/8/5n2/8/3QK3 w - - 0 1", class: 0 },
    Root { name: "promo-pinned", fen: "3rk3/2P1P3/8/8/8/8/8/3RK3 w - - 0 1", class: 0 },
    Root { name: "underpromo-mate", fen: "8/5P1k/5K2/8/8/8/8/8 w - - 0 1", class: 0 },
    Root { name: "rook-capture-rights", fen: "r3k2r/1B4B1/8/8/8/8/1b4b1/R3K2R w KQkq - 0 1", class: 1 },
    // three pawns about to promote with captures on both sides: more than 32 tactical moves in one position
    Root { name: "promo-storm-b", fen: "r1n1n1r1/1P1P1P2/8/7k/8/8/8/7K b - - 0 1", class: 1 },
    Root { name: "promo-storm-w", fen: "r1n1n1r1/1P1P1P2/8/7k/8/8/8/7K w - - 0 1", class: 1 },
    Root { name: "promo-storm-m", fen: "7k/8/8/8/7K/8/1p1p1p2/R1N1N1R1 w - - 0 1", class: 1 },
    Root { name: "edge-promotions", fen: "4k3/P6P/8/8/8/8/p6p/4K3 b - - 0 1", class: 0 },
    Root { name: "edge-promo-captures", fen: "1r2k1r1/P6P/8/8/8/8/p6p/1R2K1R1 w - - 0 1", class: 1 },
    // rooks that can be traded on their home corners while castling rights are still held
    Root { name: "rook-trade", fen: "r4rk1/1pp2ppp/2n2n2/3p4/3P4/2N2N2/1PP2PPP/R2RK3 b Q - 0 1", class: 2 },
    Root { name: "rook-trade-b", fen: "r2rk3/1pp2ppp/2n2n2/3p4/3P4/2N2N2/1PP2PPP/R4RK1 w q - 0 1", class: 2 },
    Root { name: "open-corners", fen: "r3k2r/7p/8/8/8/8/P7/R3K2R w KQkq - 0 1", class: 1 },
    // castling rights with the enemy king next to the castling path (only a king attacks the path)
    Root { name: "castle-near-king-ws", fen: "3r4/8/8/8/8/8/6k1/4K2R w K - 0 1", class: 0 },
    Root { name: "castle-near-king-wl", fen: "6r1/8/8/8/8/8/2k5/R3K3 w Q - 0 1", class: 0 },
    Root { name: "castle-near-king-bs", fen: "4k2r/6K1/8/8/8/8/8/3R4 b k - 0 1", class: 0 },
    Root { name: "castle-near-king-bl", fen: "r3k3/2K5/8/8/8/8/8/6R1 b q - 0 1", class: 0 },
    Root { name: "castle-near-king-wq", fen: "3r4/8/8/8/8/8/1k6/R3K3 w Q - 0 1", class: 0 },
    // locked fortresses: both sides can only shuttle a king, long stretches of single legal moves
    Root { name: "fortress", fen: "5b1k/4p1p1/4P1P1/8/7p/1p1p4/1P1P3P/K1B5 w - - 0 1", class: 0 },
    Root { name: "fortress-b", fen: "k1b5/1p1p3p/1P1P4/7P/8/4p1p1/4P1P1/5B1K b - - 0 1", class: 0 },
];

/// Move-reached twins: (root, line A, line B). Both lines end in the same placement with the same side to move and
/// the same castling rights, but line A's last move is a double pawn push that creates an en-passant right and line
/// B reaches the square with two single steps. (Sibling FENs exercise the hash of a *loaded* position; these exercise
/// the hash as `push` maintains it.)
pub const MOVE_TWINS: &[(&str, &str, &str)] = &[
    ("startpos", "e2e4 c7c6 e4e5 d7d5", "e2e3 c7c6 e3e4 d7d6 e4e5 d6d5"),
    ("startpos", "e2e4 c7c6 e4e5 f7f5", "e2e3 c7c6 e3e4 f7f6 e4e5 f6f5"),
    ("startpos", "g1f3 d7d5 f3g1 d5d4 e2e4", "g1f3 d7d6 e2e3 d6d5 f3g1 d5d4 e3e4"),
    ("4k3/3p4/8/4P3/8/8/7P/4K3 w - - 0 1", "h2h4 d7d5", "h2h3 d7d6 h3h4 d6d5"),
    ("4k3/7p/8/8/4p3/8/3P4/4K3 b - - 0 1", "h7h5 d2d4", "h7h6 d2d3 h6h5 d3d4"),
    ("r3k2r/3p4/8/4P3/8/8/7P/R3K2R w KQkq - 0 1", "h2h4 d7d5", "h2h3 d7d6 h3h4 d6d5"),
];

/// Histories after which a castling right is gone although king and a rook stand on their home squares again (or a
/// castling move would at least look attractive): rook trades on a home corner with recapture by the other rook, a king
/// taking a rook on its corner, rook or king stepping away and back, a rook captured on its corner by a minor piece or
/// by a promoting pawn.
pub const RIGHTS_LINES: &[(&str, &str)] = &[
    ("r4rk1/1pp2ppp/2n2n2/3p4/3P4/2N2N2/1PP2PPP/R2RK3 b Q - 0 1", "a8a1 d1a1 h7h6"),
    ("r2rk3/1pp2ppp/2n2n2/3p4/3P4/2N2N2/1PP2PPP/R4RK1 w q - 0 1", "a1a8 d8a8 h2h3"),
    ("r4rk1/1pp2ppp/2n2n2/3p4/3P4/2N2N2/1PP2PPP/R2RK3 b Q - 0 1", "a8a1 d1a1 h7h6 h2h3 h6h5"),
    ("4k2r/p6K/8/8/8/8/8/7Q w k - 0 1", "h7h8 a7a6 h8h7 a6a5 h7g6 a5a4 g6g5"),
    ("r3k2r/pppq1ppp/2npbn2/2b1p3/2B1P3/2NPBN2/PPPQ1PPP/R3K2R w KQkq - 0 1", "h1g1 h8g8 g1h1 g8h8"),
    ("r3k2r/pppq1ppp/2npbn2/2b1p3/2B1P3/2NPBN2/PPPQ1PPP/R3K2R w KQkq - 0 1", "e1f1 e8f8 f1e1 f8e8"),
    ("r3k2r/pppq1ppp/2npbn2/2b1p3/2B1P3/2NPBN2/PPPQ1PPP/R3K2R w KQkq - 0 1", "a1b1 a8b8 b1a1 b8a8"),
    ("r3k2r/1P6/8/8/8/8/6p1/R3K2R w KQkq - 0 1", "b7a8n g2h1n"),
    ("r3k2r/8/8/8/3b4/8/8/R3K2R b KQkq - 0 1", "d4a1 h1g1 a1d4 g1h1"),
    // a queen or rook move whose text looks like a castling move of the side that plays it
    ("4Q3/8/8/8/b7/8/k7/4K2R w K - 0 1", "e8g8"),
    ("4Q3/8/8/8/8/8/7k/R3K3 w Q - 0 1", "e8c8"),
    ("r3k3/8/8/2K5/1B6/8/8/4q3 b q - 0 1", "e1c1"),
    ("4k2r/8/8/5K2/6B1/8/8/4r3 b k - 0 1", "e1g1"),
    ("startpos", "e2e4 e7e5 d1h5 e8e7 g1f3 e7e6 f1e2 f7f6 h5e8 f8e7 e8g8"),
];

/// Perpetual-check lines: (root, moves). After the moves the side to move has a single legal move, which is the
/// move it played four plies earlier (what the engine's repetition filter looks for).
pub const PERPETUALS: &[(&str, &str)] = &[
    ("6k1/6p1/8/7Q/8/8/8/K7 w - - 0 1", "h5e8 g8h7 e8h5 h7g8 h5e8"),
    ("6k1/6p1/8/7Q/8/8/8/K7 w - - 0 1", "h5e8 g8h7 e8h5 h7g8 h5e8 g8h7 e8h5 h7g8 h5e8"),
    ("k7/8/8/8/7q/8/6P1/6K1 b - - 0 1", "h4e1 g1h2 e1h4 h2g1 h4e1"),
    ("6k1/6p1/8/7Q/8/8/8/K7 w - - 0 1", "h5e8 g8h7 e8h5 h7g8"),
];

/// Positions the engine's FEN reader accepts although they cannot arise in play (pawns on the first and last
/// ranks, in every combination of colour and side to move). The reference model refuses them, so nothing is judged
/// about the moves; they only drive the unchecked fast paths (C15).
pub const ODD_FENS: &[&str] = &[
    "4k2P/8/8/8/8/8/8/4K3 w - - 0 1",
    "4k2P/8/8/8/8/8/8/4K3 b - - 0 1",
    "4k3/8/8/8/8/8/8/p3K3 b - - 0 1",
    "4k3/8/8/8/8/8/8/p3K3 w - - 0 1",
    "P3k2P/8/8/8/8/8/8/p2K3p w - - 0 1",
    "P3k2P/8/8/8/8/8/8/p2K3p b - - 0 1",
    "2P1k1p1/8/8/8/8/8/8/1p2K1P1 w - - 0 1",
    "2P1k1p1/8/8/8/8/8/8/1p2K1P1 b - - 0 1",
    "PPPPkPPP/8/8/8/8/8/8/pppKpppp w - - 0 1",
    "PPPPkPPP/8/8/8/8/8/8/pppKpppp b - - 0 1",
    "4k3/P7/8/8/8/8/p7/P3K2p w - - 0 1",
    "r3k2r/8/8/8/8/8/8/R3K2R w KQkq e6 0 1",
    "r3k2r/8/8/8/8/8/8/R3K2R b KQkq a3 0 1",
    "4k3/8/8/8/8/8/8/4K3 w KQkq - 0 1",
    // castling flags left over although the king is not on its home square (edge files included)
    "5b1k/8/8/8/8/8/8/K7 b k - 0 1",
    "7k/8/8/8/8/8/8/K4B2 w Q - 0 1",
    "7k/8/8/8/8/8/8/K7 w KQkq - 0 1",
    "k7/8/8/8/8/8/8/7K b KQkq - 0 1",
    "1k6/8/8/8/8/8/8/1K6 w KQkq - 0 1",
    "4k3/8/8/8/8/8/8/R3K2R w kq - 0 1",
    // more pseudo-legal moves than any legal position has (221 and 224), still within the 256-entry move buffer
    "R6R/3Q4/1Q4Q1/4Q3/2Q4Q/Q4Q2/3Q4/kBNN1KB1 w - - 0 1",
    "R4Q1R/3Q4/1Q4Q1/4Q3/2Q4Q/Q4Q2/pp1Q4/kBNN1KB1 w - - 0 1",
];

/// Groups of positions with the same placement that differ only in side to move, castling rights or
/// en-passant file: searched back to back they would collide if the hash forgot a feature.
pub const SIBLINGS: &[&[&str]] = &[
    &[
        "r3k2r/8/8/8/8/8/8/R3K2R w KQkq - 0 1",
        "r3k2r/8/8/8/8/8/8/R3K2R b KQkq - 0 1",
        "r3k2r/8/8/8/8/8/8/R3K2R w KQ - 0 1",
        "r3k2r/8/8/8/8/8/8/R3K2R w kq - 0 1",
        "r3k2r/8/8/8/8/8/8/R3K2R w Kk - 0 1",
        "r3k2r/8/8/8/8/8/8/R3K2R w - - 0 1",
    ],
    &[
        "4k3/8/8/2pPp3/8/8/8/4K3 w - c6 0 1",
        "4k3/8/8/2pPp3/8/8/8/4K3 w - e6 0 1",
        "4k3/8/8/2pPp3/8/8/8/4K3 w - - 0 1",
        "4k3/8/8/2pPp3/8/8/8/4K3 b - - 0 1",
    ],
    &[
        "r3k2r/p1ppqpb1/bn2pnp1/3PN3/1p2P3/2N2Q1p/PPPBBPPP/R3K2R w KQkq - 0 1",
        "r3k2r/p1ppqpb1/bn2pnp1/3PN3/1p2P3/2N2Q1p/PPPBBPPP/R3K2R b KQkq - 0 1",
        "r3k2r/p1ppqpb1/bn2pnp1/3PN3/1p2P3/2N2Q1p/PPPBBPPP/R3K2R w Kq - 0 1",
        "r3k2r/p1ppqpb1/bn2pnp1/3PN3/1p2P3/2N2Q1p/PPPBBPPP/R3K2R w - - 0 1",
    ],
    &[
        "4k3/8/8/8/2pPp3/8/8/4K3 b - d3 0 1",
        "4k3/8/8/8/2pPp3/8/8/4K3 b - - 0 1",
        "4k3/8/8/8/2pPp3/8/8/4K3 w - - 0 1",
    ],
    // positions in which the engine's own choice at depth 1-3 is a castling move (found with `rbsim findcastle`);
    // the first entry holds the right that move needs, the following ones lack it
    &[
        "r3k2r/pppq1ppp/2npbn2/2b1p3/2B1P3/2NPBN2/PPPQ1PPP/R3K2R w KQkq - 0 1",
        "r3k2r/pppq1ppp/2npbn2/2b1p3/2B1P3/2NPBN2/PPPQ1PPP/R3K2R w Qkq - 0 1",
        "r3k2r/pppq1ppp/2npbn2/2b1p3/2B1P3/2NPBN2/PPPQ1PPP/R3K2R w kq - 0 1",
        "r3k2r/pppq1ppp/2npbn2/2b1p3/2B1P3/2NPBN2/PPPQ1PPP/R3K2R w - - 0 1",
    ],
    &[
        "r3k2r/pppq1ppp/2npbn2/2b1p3/2B1P3/2NPBN2/PPP1QPPP/R3K2R b KQkq - 1 1",
        "r3k2r/pppq1ppp/2npbn2/2b1p3/2B1P3/2NPBN2/PPP1QPPP/R3K2R b KQq - 1 1",
        "r3k2r/pppq1ppp/2npbn2/2b1p3/2B1P3/2NPBN2/PPP1QPPP/R3K2R b KQ - 1 1",
        "r3k2r/pppq1ppp/2npbn2/2b1p3/2B1P3/2NPBN2/PPP1QPPP/R3K2R b - - 1 1",
    ],
    &[
        "r3k1r1/1pp2ppp/p7/2Pp2P1/1P2p3/8/P2PPP1P/2R1K2R b Kq - 0 6",
        "r3k1r1/1pp2ppp/p7/2Pp2P1/1P2p3/8/P2PPP1P/2R1K2R b K - 0 6",
        "r3k1r1/1pp2ppp/p7/2Pp2P1/1P2p3/8/P2PPP1P/2R1K2R b - - 0 6",
    ],
    &[
        "2r1k2r/p2ppp1p/8/1p2P3/2pP2p1/P7/1PP2PPP/R3K1R1 w Qk - 0 6",
        "2r1k2r/p2ppp1p/8/1p2P3/2pP2p1/P7/1PP2PPP/R3K1R1 w k - 0 6",
        "2r1k2r/p2ppp1p/8/1p2P3/2pP2p1/P7/1PP2PPP/R3K1R1 w - - 0 6",
    ],
    &[
        "r3k3/1p3pp1/2p5/8/8/1P5r/2PK1PPR/R7 b q - 4 4",
        "r3k3/1p3pp1/2p5/8/8/1P5r/2PK1PPR/R7 b - - 4 4",
    ],
    &[
        "r3k2r/ppp1pppp/8/3p4/3P4/8/PPP1PPPP/R3K1R1 b Qkq - 1 2",
        "r3k2r/ppp1pppp/8/3p4/3P4/8/PPP1PPPP/R3K1R1 b Qq - 1 2",
        "r3k2r/ppp1pppp/8/3p4/3P4/8/PPP1PPPP/R3K1R1 b Q - 1 2",
    ],
    // side to move only
    &[
        "r1bqk1nr/pppp1ppp/2n5/2b1p3/2B1P3/5N2/PPPP1PPP/RNBQK2R w KQkq - 4 4",
        "r1bqk1nr/pppp1ppp/2n5/2b1p3/2B1P3/5N2/PPPP1PPP/RNBQK2R b KQkq - 4 4",
    ],
];

#!/bin/bash
# Sensitivity and silence of the checks: applies each patch under selftest/sensitivity (must be caught: exit 1 with a
# replay that reproduces) and selftest/benign (must stay silent: exit 0) to a scratch worktree of /repo and runs the
# unchanged harness against it (VERIF_REPO). Nothing is written into /repo, /verif/evidence or /verif/replays.
#   selftest/sensitivity.sh [pattern]      e.g. selftest/sensitivity.sh C14   (breakages and seeded changes of C14, and the
#                                          benign edits against the C14 check only)
# Only one instance at a time (fixed scratch directories under /tmp); do not edit sim/ while it runs.
set -u
cd "$(dirname "$0")/.."
PAT="${1:-}"
W=/tmp/verif_sens_wt
OUTD=/tmp/verif_sens_out
rm -rf "$OUTD"; mkdir -p "$OUTD"
git -C /repo worktree remove --force "$W" 2>/dev/null
git -C /repo worktree add -q "$W" HEAD || exit 2
export VERIF_REPO="$W" VERIF_OUT="$OUTD" VERIF_TARGET=/tmp/verif_sens_target
fail=0
for f in selftest/sensitivity/*"$PAT"*.patch; do
  [ -e "$f" ] || continue
  prop=$(basename "$f" | cut -d_ -f1)
  git -C "$W" checkout -q -- . && git -C "$W" apply "$PWD/$f" || { echo "APPLY-FAILED $f"; fail=1; continue; }
  t0=$(date +%s)
  out=$(./check "$prop" --tier quick 2>&1); rc=$?
  t1=$(date +%s)
  rules=$(echo "$out" | grep -o 'rule=[A-Z][A-Za-z0-9-]*' | sort -u | tr '\n' ' ')
  if [ $rc -eq 1 ]; then echo "CAUGHT   $(basename $f)  ${rules} ($((t1-t0))s)"; else echo "MISSED   $(basename $f)  rc=$rc ($((t1-t0))s)"; fail=1; fi
done
# independently written breaking changes (seeded/<ID>-x/patch.diff): each must be caught by the check of its property
for d in seeded/*"$PAT"*/; do
  [ -f "$d/patch.diff" ] || continue
  name=$(basename "$d"); prop=${name%%-*}
  git -C "$W" checkout -q -- . && git -C "$W" apply "$PWD/$d/patch.diff" || { echo "APPLY-FAILED $d"; fail=1; continue; }
  t0=$(date +%s)
  out=$(./check "$prop" --tier quick 2>&1); rc=$?
  t1=$(date +%s)
  rules=$(echo "$out" | grep -o 'rule=[A-Z][A-Za-z0-9-]*' | sort -u | tr '\n' ' ')
  if [ $rc -eq 1 ]; then echo "CAUGHT   seeded/$name  ${rules} ($((t1-t0))s)"; else echo "MISSED   seeded/$name  rc=$rc ($((t1-t0))s)"; fail=1; fi
done
case "$PAT" in C06|C07|C08|C13|C14|C15|C18|C19) BPROPS="$PAT";; "") BPROPS="C06 C07 C08 C13 C14 C15 C18 C19";; *) BPROPS="";; esac
for f in selftest/benign/*.patch; do
  [ -z "$BPROPS" ] && break
  git -C "$W" checkout -q -- . && git -C "$W" apply "$PWD/$f" || { echo "APPLY-FAILED $f"; fail=1; continue; }
  for prop in $BPROPS; do
    out=$(./check "$prop" --tier quick --runs $(./check planned "$prop" half) 2>&1); rc=$?
    if [ $rc -eq 0 ]; then echo "SILENT   $(basename $f) $prop"; else echo "ALARM    $(basename $f) $prop rc=$rc: $(echo "$out" | grep -m1 -A1 VIOLATION | tr '\n' ' ')"; fail=1; fi
  done
done
git -C /repo worktree remove --force "$W"
rm -rf /tmp/verif_sens_target
exit $fail

//! Deterministic scheduler: real OS threads that run only while they hold the baton.
//!
//! Every seam operation of the engine (stdin read, stdout write, atomic load/store, mutex
//! lock/unlock, spawn, join, sleep, thread start/exit) is a *yield point*. At a yield point the
//! running thread asks `pick` who runs next; if it is somebody else it hands the baton over and
//! parks on the condvar. Which thread runs is a pure function of the run's `Plan`
//! (seeded policy, or an explicit list of recorded decisions) - never of the OS scheduler.
//!
//! Simulated time (`now`, ns) advances by `node_cost` at every node-entry poll of a search and
//! jumps to the earliest deadline when nothing is runnable.

use std::cell::Cell;
use std::collections::{BTreeMap, HashMap as StdHashMap, VecDeque};
use std::sync::{Arc, Condvar, Mutex as StdMutex, MutexGuard as StdGuard};

pub type Tid = usize;

#[derive(Clone, Copy, PartialEq, Eq, Debug)]
pub enum Role {
    Main,
    Gui,
    Unknown,
    Search,
    Timer,
}
impl Role {
    pub fn name(self) -> &'static str {
        match self {
            Role::Main => "main",
            Role::Gui => "gui",
            Role::Unknown => "unknown",
            Role::Search => "search",
            Role::Timer => "timer",
        }
    }
    fn idx(self) -> usize {
        self as usize
    }
}

/// Named schedule points.
#[derive(Clone, Copy, PartialEq, Eq, Debug, PartialOrd, Ord, Hash)]
#[repr(u8)]
pub enum Pt {
    StdinRead,
    StdinBlocked,
    OutPreBest,
    OutPostBest,
    OutPreInfo,
    OutPostInfo,
    OutPreReady,
    OutPostReady,
    OutPreErr,
    OutPostErr,
    OutPreOther,
    OutPostOther,
    FlagLoad,
    StorePre,
    StorePost,
    MutexLock,
    MutexBlocked,
    MutexAcquired,
    MutexUnlock,
    SpawnPost,
    ThreadStart,
    ThreadExit,
    Join,
    Sleep,
    SleepWake,
    GuiSend,
    GuiAwait,
    GuiStep,
}
pub const NPT: usize = 28;
pub const PT_ALL: [Pt; NPT] = [
    Pt::StdinRead,
    Pt::StdinBlocked,
    Pt::OutPreBest,
    Pt::OutPostBest,
    Pt::OutPreInfo,
    Pt::OutPostInfo,
    Pt::OutPreReady,
    Pt::OutPostReady,
    Pt::OutPreErr,
    Pt::OutPostErr,
    Pt::OutPreOther,
    Pt::OutPostOther,
    Pt::FlagLoad,
    Pt::StorePre,
    Pt::StorePost,
    Pt::MutexLock,
    Pt::MutexBlocked,
    Pt::MutexAcquired,
    Pt::MutexUnlock,
    Pt::SpawnPost,
    Pt::ThreadStart,
    Pt::ThreadExit,
    Pt::Join,
    Pt::Sleep,
    Pt::SleepWake,
    Pt::GuiSend,
    Pt::GuiAwait,
    Pt::GuiStep,
];
impl Pt {
    pub fn name(self) -> &'static str {
        match self {
            Pt::StdinRead => "stdin.read",
            Pt::StdinBlocked => "stdin.blocked",
            Pt::OutPreBest => "out.pre[bestmove]",
            Pt::OutPostBest => "out.post[bestmove]",
            Pt::OutPreInfo => "out.pre[info]",
            Pt::OutPostInfo => "out.post[info]",
            Pt::OutPreReady => "out.pre[readyok]",
            Pt::OutPostReady => "out.post[readyok]",
            Pt::OutPreErr => "out.pre[error]",
            Pt::OutPostErr => "out.post[error]",
            Pt::OutPreOther => "out.pre[other]",
            Pt::OutPostOther => "out.post[other]",
            Pt::FlagLoad => "flag.load",
            Pt::StorePre => "flag.store.pre",
            Pt::StorePost => "flag.store.post",
            Pt::MutexLock => "mutex.lock",
            Pt::MutexBlocked => "mutex.blocked",
            Pt::MutexAcquired => "mutex.acquired",
            Pt::MutexUnlock => "mutex.unlock",
            Pt::SpawnPost => "spawn.post",
            Pt::ThreadStart => "thread.start",
            Pt::ThreadExit => "thread.exit",
            Pt::Join => "join",
            Pt::Sleep => "sleep",
            Pt::SleepWake => "sleep.wake",
            Pt::GuiSend => "gui.send",
            Pt::GuiAwait => "gui.await",
            Pt::GuiStep => "gui.step",
        }
    }
    pub fn from_name(s: &str) -> Option<Pt> {
        PT_ALL.iter().copied().find(|p| p.name() == s)
    }
}

#[derive(Clone, Debug, PartialEq)]
pub enum St {
    Run,
    Join(Tid),
    Mutex(usize),
    Stdin,
    Sleep(u64),
    GuiBest(u64),
    GuiReady(u64),
    GuiPolls(u64),
    Done,
}
impl St {
    pub fn describe(&self) -> String {
        match self {
            St::Run => "runnable".into(),
            St::Join(t) => format!("join(t{})", t),
            St::Mutex(m) => format!("mutex(m{})", m),
            St::Stdin => "stdin".into(),
            St::Sleep(d) => format!("sleep(until {}ns)", d),
            St::GuiBest(n) => format!("gui-await-bestmove#{}", n),
            St::GuiReady(n) => format!("gui-await-readyok#{}", n),
            St::GuiPolls(n) => format!("gui-await-polls>={}", n),
            St::Done => "done".into(),
        }
    }
}

#[derive(Clone, Debug, PartialEq)]
pub enum Policy {
    /// non-preemptive: switch only when the running thread blocks
    Np,
    /// random walk: at each yield point switch with probability p/1000
    Rw(u32),
    /// PCT-style: random priorities, `d` priority-change points
    Pct(u8),
    /// static priorities by role (index = Role as usize), highest runs; used to place a stop at an exact poll
    RolePrio([u8; 5]),
}
impl Policy {
    pub fn describe(&self) -> String {
        match self {
            Policy::Np => "np".into(),
            Policy::Rw(p) => format!("rw({})", p),
            Policy::Pct(d) => format!("pct({})", d),
            Policy::RolePrio(p) => format!("roleprio({:?})", p),
        }
    }
}

#[derive(Clone, Debug)]
pub struct Params {
    pub policy: Policy,
    /// bounded unfairness: a runnable thread is passed over at most `fair` times
    pub fair: u32,
    /// simulated cost of one search node (ns); the CPU-speed knob
    pub node_cost: u64,
    /// upper bound of the sleep overshoot fault (ns); 0 = none
    pub oversleep_max: u64,
    /// cap applied to `HashMap::with_capacity_and_hasher` (a tuning knob, not semantics: the table is unbounded)
    pub tt_cap: usize,
    pub max_steps: u64,
    pub max_polls: u64,
    /// loads performed by thread 0 count as search polls (direct-call and self-play modes)
    pub search_on_main: bool,
    /// record every point at which another thread could have been run instead (systematic single-preemption sweeps)
    pub record_opps: bool,
}
impl Default for Params {
    fn default() -> Self {
        Params {
            policy: Policy::Np,
            fair: 64,
            node_cost: 1_000,
            oversleep_max: 0,
            tt_cap: 1024,
            max_steps: 300_000,
            max_polls: 200_000,
            search_on_main: false,
            record_opps: false,
        }
    }
}

#[derive(Clone, Debug, PartialEq)]
pub struct Decision {
    pub th: String,
    pub pt: Pt,
    pub occ: u64,
    pub to: String,
}

#[derive(Clone, Debug)]
pub enum Plan {
    /// every scheduling choice and fault drawn from this seed according to `Params::policy`
    Gen { seed: u64 },
    /// explicit non-default decisions and faults (what a replay file holds)
    Scripted { decisions: Vec<Decision>, oversleeps: Vec<(String, u64)> },
}

#[derive(Clone, Debug, PartialEq)]
pub enum EvK {
    GuiSend { id: u32, line: String },
    GuiClose,
    Read { id: u32, line: String },
    ReadEof,
    Out { line: String, polls: u64, mixed: bool },
    Store { flag: usize, val: bool },
    FirstLoad { flag: usize },
    SawFalse { flag: usize, poll: u64 },
    Spawn { child: Tid },
    Start,
    Exit { polls: u64 },
    Panic { msg: String, loc: String },
    SleepReq { ns: u64, over: u64 },
    Woke,
    Blocked { why: String },
    JoinDone { child: Tid, ok: bool },
    MutexPoisoned,
    /// the clock had to jump (nothing runnable) while the stdin loop was blocked on a lock or a join
    Stall { why: String, jump_ns: u64 },
    /// a search completed a node while its stop flag was already down and it had not looked at it for `stores` nodes
    LateNode { flag: usize, stores: u32 },
    Note { text: String },
}

#[derive(Clone, Debug)]
pub struct Ev {
    pub seq: u64,
    pub t: u64,
    /// total search polls made so far in this run
    pub tp: u64,
    pub th: Tid,
    pub k: EvK,
}

#[derive(Clone, Debug, PartialEq)]
pub enum Verdict {
    /// thread 0 returned (process exit); Err carries the error text of `uci_talk`
    Exit(Result<(), String>),
    /// thread 0 panicked (process would die with exit status 101)
    MainPanicked,
    /// nothing runnable, no sleeper
    Deadlock(String),
    StepLimit,
    PollLimit,
}

pub struct Th {
    pub name: String,
    pub role: Role,
    pub st: St,
    pub starve: u32,
    pub polls: u64,
    pub occ: [u64; NPT],
    pub prio: u64,
    pub parent_cmd: u32,
    pub saw_false_at: Option<u64>,
    pub loads_after_false: u64,
    pub late_nodes: u64,
    pub outs_after_false: u64,
    pub exited_at_seq: Option<u64>,
    pub panicked: bool,
    script: StdHashMap<(Pt, u64), String>,
}

#[derive(Clone, Debug)]
pub struct ThInfo {
    pub name: String,
    pub role: Role,
    pub polls: u64,
    pub parent_cmd: u32,
    pub saw_false_at: Option<u64>,
    pub loads_after_false: u64,
    /// nodes completed while the stop was down and unobserved (beyond the unpolled-node grace)
    pub late_nodes: u64,
    pub outs_after_false: u64,
    pub exited: bool,
    pub panicked: bool,
    pub final_state: String,
}

pub struct Inner {
    pub cur: Tid,
    pub th: Vec<Th>,
    rng: u64,
    pub now: u64,
    pub params: Params,
    scripted: bool,
    script_decisions: Vec<Decision>,
    script_oversleeps: Vec<(String, u64)>,
    stdin_q: VecDeque<(u32, String)>,
    stdin_eof: bool,
    pub cur_cmd: u32,
    spawn_in_cmd: u32,
    out_partial: String,
    out_writers: Vec<Tid>,
    pub events: Vec<Ev>,
    seq: u64,
    pub bestmoves: u64,
    pub last_bestmove: Option<String>,
    pub readyoks: u64,
    pub errors: u64,
    err_mark: u64,
    pub total_polls: u64,
    pub item_polls: u64,
    item_marks: Vec<u64>,
    pub flip_at: Option<u64>,
    pub steps: u64,
    pub switches: u64,
    pub verdict: Option<Verdict>,
    /// what every thread was doing at the moment the verdict was reached
    verdict_states: Vec<String>,
    pub shutdown: bool,
    next_obj: usize,
    pub decisions_rec: Vec<Decision>,
    pub oversleep_rec: Vec<(String, u64)>,
    pub sig: u64,
    os_handles: Vec<std::thread::JoinHandle<()>>,
    pub faults: BTreeMap<&'static str, u64>,
    pub opps: Vec<Decision>,
    pct_changes: Vec<u64>,
    pct_low: u64,
    poll_mark: u64,
    best_mark: u64,
}

pub struct World {
    pub m: StdMutex<Inner>,
    cv: Condvar,
}

/// Private unwind payload used to tear the simulated process down.
pub struct Shutdown;

thread_local! {
    static LAST_PANIC: std::cell::RefCell<Option<(String, String)>> = const { std::cell::RefCell::new(None) };
    static CTX_W: Cell<*const World> = const { Cell::new(std::ptr::null()) };
    static CTX_ME: Cell<usize> = const { Cell::new(usize::MAX) };
    /// table stores (= completed interior nodes) made by this thread since its last look at its stop flag
    static STORES_SINCE_POLL: Cell<u32> = const { Cell::new(0) };
    /// the flag this thread polled last (id, address); only dereferenced while the search that polled it runs
    static LAST_FLAG: Cell<(usize, usize)> = const { Cell::new((0, 0)) };
}

/// A search that completes more than this many interior nodes without looking at its stop flag is charged for the
/// further ones as if each were a poll (simulated time, scheduling point, poll budget, stop-arrival instant). The shipped
/// search polls on entry to every interior node; between two polls it completes at most one node per ply of the
/// unwinding recursion (<= 64), so nothing changes for it.
pub const UNPOLLED_GRACE: u32 = 128;

pub fn in_sim() -> bool {
    CTX_W.with(|c| !c.get().is_null())
}
#[inline]
pub fn me() -> Tid {
    CTX_ME.with(|c| c.get())
}
#[inline]
fn world() -> &'static World {
    let p = CTX_W.with(|c| c.get());
    assert!(!p.is_null(), "simulated seam used outside a simulation thread");
    // SAFETY: the Arc<World> is kept alive by the OS thread's closure for as long as the thread runs.
    unsafe { &*p }
}

pub fn splitmix(s: &mut u64) -> u64 {
    *s = s.wrapping_add(0x9E3779B97F4A7C15);
    let mut z = *s;
    z = (z ^ (z >> 30)).wrapping_mul(0xBF58476D1CE4E5B9);
    z = (z ^ (z >> 27)).wrapping_mul(0x94D049BB133111EB);
    z ^ (z >> 31)
}

fn fnv(h: &mut u64, bytes: &[u8]) {
    for b in bytes {
        *h ^= *b as u64;
        *h = h.wrapping_mul(0x100000001b3);
    }
}

impl Inner {
    fn snapshot_states(&mut self) {
        if self.verdict_states.is_empty() {
            self.verdict_states = self.th.iter().map(|t| t.st.describe()).collect();
        }
    }
    fn rnd(&mut self) -> u64 {
        splitmix(&mut self.rng)
    }
    pub fn ev(&mut self, th: Tid, k: EvK) {
        self.seq += 1;
        let e = Ev { seq: self.seq, t: self.now, tp: self.total_polls, th, k };
        self.events.push(e);
    }
    pub fn bump(&mut self, k: &'static str) {
        *self.faults.entry(k).or_insert(0) += 1;
    }
    fn tid_by_name(&self, n: &str) -> Option<Tid> {
        self.th.iter().position(|t| t.name == n)
    }
    fn wake_sleepers(&mut self) {
        let now = self.now;
        for t in self.th.iter_mut() {
            if let St::Sleep(d) = t.st {
                if d <= now {
                    t.st = St::Run;
                }
            }
        }
    }
    fn wake_where(&mut self, f: impl Fn(&St) -> bool) {
        for t in self.th.iter_mut() {
            if f(&t.st) {
                t.st = St::Run;
            }
        }
    }
    fn new_thread(&mut self, name: String, role: Role, parent_cmd: u32) -> Tid {
        let prio = self.rnd() | 1 << 32;
        let mut script = StdHashMap::new();
        for d in &self.script_decisions {
            if d.th == name {
                script.insert((d.pt, d.occ), d.to.clone());
            }
        }
        self.th.push(Th {
            name,
            role,
            st: St::Run,
            starve: 0,
            polls: 0,
            occ: [0; NPT],
            prio,
            parent_cmd,
            saw_false_at: None,
            loads_after_false: 0,
            late_nodes: 0,
            outs_after_false: 0,
            exited_at_seq: None,
            panicked: false,
            script,
        });
        self.th.len() - 1
    }

    /// Chooses the next thread to run. `None` = nothing can ever run again (deadlock).
    fn pick(&mut self, me: Tid, pt: Pt, may_continue: bool) -> Option<Tid> {
        let runnable: Vec<Tid> = loop {
            let r: Vec<Tid> = (0..self.th.len()).filter(|&t| self.th[t].st == St::Run).collect();
            if !r.is_empty() {
                break r;
            }
            // idle: jump the clock to the earliest deadline
            let mut best: Option<u64> = None;
            for t in &self.th {
                if let St::Sleep(d) = t.st {
                    best = Some(best.map_or(d, |b: u64| b.min(d)));
                }
            }
            if let Some(d) = best {
                if !self.th.is_empty() && matches!(self.th[0].st, St::Mutex(_) | St::Join(_)) && self.th[0].role == Role::Main && !self.params.search_on_main {
                    let why = self.th[0].st.describe();
                    let jump_ns = d.saturating_sub(self.now);
                    self.ev(0, EvK::Stall { why, jump_ns });
                }
                self.now = self.now.max(d);
                self.wake_sleepers();
                continue;
            }
            // a GUI waiting for search progress gives up when the engine is idle
            let mut woke = false;
            for t in self.th.iter_mut() {
                if let St::GuiPolls(_) = t.st {
                    t.st = St::Run;
                    woke = true;
                }
            }
            if woke {
                continue;
            }
            return None;
        };
        // default rule (identical in seeded and scripted runs): bounded unfairness first,
        // otherwise keep running, otherwise the lowest thread id
        let mut starved: Option<Tid> = None;
        for &t in &runnable {
            if t != me && self.th[t].starve >= self.params.fair {
                if starved.map_or(true, |s| self.th[t].starve > self.th[s].starve) {
                    starved = Some(t);
                }
            }
        }
        let default = if let Some(t) = starved {
            t
        } else if may_continue && self.th[me].st == St::Run {
            me
        } else {
            runnable[0]
        };
        let occ = self.th[me].occ[pt as usize];
        self.th[me].occ[pt as usize] += 1;
        if self.params.record_opps && runnable.len() > 1 && starved.is_none() && self.opps.len() < 4000 {
            // polls are far too many to try them all: the first few, then powers of two
            if pt != Pt::FlagLoad || occ < 4 || occ.is_power_of_two() {
                for &t in &runnable {
                    if t != default {
                        let d = Decision { th: self.th[me].name.clone(), pt, occ, to: self.th[t].name.clone() };
                        self.opps.push(d);
                    }
                }
            }
        }

        let choice = if starved.is_some() {
            self.bump("fairness-forced switch");
            default
        } else if self.scripted {
            let mut c = default;
            if !self.th[me].script.is_empty() {
                if let Some(name) = self.th[me].script.get(&(pt, occ)) {
                    if let Some(t) = self.tid_by_name(name) {
                        if self.th[t].st == St::Run {
                            c = t;
                        }
                    }
                }
            }
            c
        } else {
            match self.params.policy.clone() {
                Policy::Np => {
                    if default == me {
                        me
                    } else {
                        let r = self.rnd() as usize;
                        runnable[r % runnable.len()]
                    }
                }
                Policy::Rw(p) => {
                    if default == me && (self.rnd() % 1000) as u32 >= p {
                        me
                    } else {
                        let r = self.rnd() as usize;
                        runnable[r % runnable.len()]
                    }
                }
                Policy::Pct(_) => {
                    if self.pct_changes.contains(&self.steps) && self.th[me].st == St::Run {
                        self.pct_low = self.pct_low.saturating_sub(1);
                        self.th[me].prio = self.pct_low;
                        self.bump("pct priority change");
                    }
                    let mut best = runnable[0];
                    for &t in &runnable {
                        if self.th[t].prio > self.th[best].prio {
                            best = t;
                        }
                    }
                    best
                }
                Policy::RolePrio(p) => {
                    let mut best = runnable[0];
                    for &t in &runnable {
                        if p[self.th[t].role.idx()] > p[self.th[best].role.idx()] {
                            best = t;
                        }
                    }
                    best
                }
            }
        };
        if choice != default {
            let d = Decision {
                th: self.th[me].name.clone(),
                pt,
                occ,
                to: self.th[choice].name.clone(),
            };
            self.decisions_rec.push(d);
        }
        for &t in &runnable {
            if t != choice {
                self.th[t].starve += 1;
            }
        }
        self.th[choice].starve = 0;
        Some(choice)
    }
}

impl World {
    /// Hands the baton on (if `pick` says so) and returns when it is back with `me`.
    fn switch(&self, mut g: StdGuard<'_, Inner>, me: Tid, pt: Pt, may_continue: bool) {
        g.steps += 1;
        if g.verdict.is_none() {
            if g.steps > g.params.max_steps {
                g.verdict = Some(Verdict::StepLimit);
            } else if g.total_polls > g.params.max_polls {
                g.verdict = Some(Verdict::PollLimit);
            }
            if g.verdict.is_some() {
                g.snapshot_states();
                g.shutdown = true;
                self.cv.notify_all();
            }
        }
        if g.shutdown {
            drop(g);
            std::panic::resume_unwind(Box::new(Shutdown));
        }
        match g.pick(me, pt, may_continue) {
            None => {
                let desc: Vec<String> = g
                    .th
                    .iter()
                    .filter(|t| t.st != St::Done)
                    .map(|t| format!("{}:{}", t.name, t.st.describe()))
                    .collect();
                g.verdict = Some(Verdict::Deadlock(desc.join(", ")));
                g.snapshot_states();
                g.shutdown = true;
                self.cv.notify_all();
                drop(g);
                std::panic::resume_unwind(Box::new(Shutdown));
            }
            Some(n) => {
                if n != me {
                    g.switches += 1;
                    let mut h = g.sig;
                    fnv(&mut h, &[g.th[me].role as u8, pt as u8, g.th[n].role as u8]);
                    g.sig = h;
                    g.cur = n;
                    self.cv.notify_all();
                    while g.cur != me && !g.shutdown {
                        g = self.cv.wait(g).unwrap();
                    }
                    if g.shutdown {
                        drop(g);
                        std::panic::resume_unwind(Box::new(Shutdown));
                    }
                }
            }
        }
    }
}

pub fn yield_point(pt: Pt) {
    let w = world();
    let me = me();
    let g = w.m.lock().unwrap();
    w.switch(g, me, pt, true);
}

pub fn block(st: St, pt: Pt) {
    let w = world();
    let me = me();
    let mut g = w.m.lock().unwrap();
    if me == 0 {
        let why = st.describe();
        g.ev(me, EvK::Blocked { why });
    }
    g.th[me].st = st;
    w.switch(g, me, pt, false);
}

/// Runs `f` with the world locked (no scheduling).
pub fn with<R>(f: impl FnOnce(&mut Inner, Tid) -> R) -> R {
    let w = world();
    let me = me();
    let mut g = w.m.lock().unwrap();
    f(&mut g, me)
}

fn set_role_if_unknown(i: &mut Inner, me: Tid, r: Role) {
    if i.th[me].role == Role::Unknown {
        i.th[me].role = r;
    }
}

// ---------------------------------------------------------------- atomic flag
pub fn flag_new() -> usize {
    with(|i, _| {
        i.next_obj += 1;
        i.next_obj
    })
}

/// The search's node-entry poll (and main's "is a search running" test).
pub fn flag_load(id: usize, v: &std::sync::atomic::AtomicBool) -> bool {
    let w = world();
    let me = me();
    let mut g = w.m.lock().unwrap();
    let is_poll = if me == 0 { g.params.search_on_main } else { g.th[me].role != Role::Gui };
    if is_poll {
        STORES_SINCE_POLL.with(|c| c.set(0));
        LAST_FLAG.with(|c| c.set((id, v as *const std::sync::atomic::AtomicBool as usize)));
        if g.th[me].polls == 0 && me != 0 {
            g.ev(me, EvK::FirstLoad { flag: id });
        }
        if g.flip_at == Some(g.item_polls) {
            v.store(false, std::sync::atomic::Ordering::SeqCst);
            g.bump("stop flag flipped at chosen poll");
            g.ev(me, EvK::Store { flag: id, val: false });
        }
        g.th[me].polls += 1;
        g.total_polls += 1;
        g.item_polls += 1;
        g.now += g.params.node_cost;
        g.wake_sleepers();
        if g.poll_mark != u64::MAX && g.total_polls >= g.poll_mark {
            g.poll_mark = u64::MAX;
            g.wake_where(|s| matches!(s, St::GuiPolls(_)));
        }
        if g.th[me].saw_false_at.is_some() {
            g.th[me].loads_after_false += 1;
        }
    }
    w.switch(g, me, Pt::FlagLoad, true);
    let val = v.load(std::sync::atomic::Ordering::SeqCst);
    if is_poll && !val {
        let mut g = w.m.lock().unwrap();
        if g.th[me].saw_false_at.is_none() {
            let p = g.th[me].polls;
            g.th[me].saw_false_at = Some(p);
            g.ev(me, EvK::SawFalse { flag: id, poll: p });
        }
    }
    val
}

/// Called by the table shim on every `insert`/`entry` (the search stores a node when it has completed it).
pub fn table_store() {
    if !in_sim() {
        return;
    }
    let n = STORES_SINCE_POLL.with(|c| {
        let n = c.get().saturating_add(1);
        c.set(n);
        n
    });
    if n <= UNPOLLED_GRACE {
        return;
    }
    let (id, addr) = LAST_FLAG.with(|c| c.get());
    if addr == 0 {
        return;
    }
    let w = world();
    let me = me();
    let mut g = w.m.lock().unwrap();
    let is_search = if me == 0 { g.params.search_on_main } else { g.th[me].role != Role::Gui };
    if !is_search {
        return;
    }
    // SAFETY: `addr` was recorded by this thread's last poll of the search it is still inside of (reset at item begin)
    let v: &std::sync::atomic::AtomicBool = unsafe { &*(addr as *const std::sync::atomic::AtomicBool) };
    if n == UNPOLLED_GRACE + 1 {
        g.bump("search ran past the unpolled-node grace");
    }
    if g.flip_at == Some(g.item_polls) {
        v.store(false, std::sync::atomic::Ordering::SeqCst);
        g.bump("stop flag flipped at chosen poll");
        g.ev(me, EvK::Store { flag: id, val: false });
    }
    g.total_polls += 1;
    g.item_polls += 1;
    g.now += g.params.node_cost;
    g.wake_sleepers();
    if g.poll_mark != u64::MAX && g.total_polls >= g.poll_mark {
        g.poll_mark = u64::MAX;
        g.wake_where(|s| matches!(s, St::GuiPolls(_)));
    }
    w.switch(g, me, Pt::FlagLoad, true);
    if !v.load(std::sync::atomic::Ordering::SeqCst) {
        let mut g = w.m.lock().unwrap();
        if g.th[me].late_nodes == 0 {
            g.ev(me, EvK::LateNode { flag: id, stores: n });
        }
        g.th[me].late_nodes += 1;
    }
}

pub fn flag_store(id: usize, v: &std::sync::atomic::AtomicBool, val: bool) {
    yield_point(Pt::StorePre);
    v.store(val, std::sync::atomic::Ordering::SeqCst);
    with(|i, me| i.ev(me, EvK::Store { flag: id, val }));
    yield_point(Pt::StorePost);
}

// ---------------------------------------------------------------- mutex
pub fn mutex_new() -> usize {
    flag_new()
}
pub fn mutex_before_lock() {
    with(|i, me| set_role_if_unknown(i, me, Role::Search));
    yield_point(Pt::MutexLock);
}
pub fn mutex_blocked(id: usize) {
    with(|i, _| i.bump("mutex contention"));
    block(St::Mutex(id), Pt::MutexBlocked);
}
pub fn mutex_acquired(poisoned: bool) {
    if poisoned {
        with(|i, me| i.ev(me, EvK::MutexPoisoned));
    }
    yield_point(Pt::MutexAcquired);
}
/// Called from a guard's destructor: must never unwind.
pub fn mutex_unlocked(id: usize) {
    if !in_sim() {
        return;
    }
    let w = world();
    let mut g = match w.m.lock() {
        Ok(g) => g,
        Err(_) => return,
    };
    g.wake_where(|s| *s == St::Mutex(id));
    if g.shutdown || std::thread::panicking() {
        return;
    }
    let me = me();
    w.switch(g, me, Pt::MutexUnlock, true);
}

// ---------------------------------------------------------------- threads
pub struct Slot<T>(pub Arc<StdMutex<Option<std::thread::Result<T>>>>);

pub fn spawn_thread<F, T>(f: F) -> (Tid, Slot<T>)
where
    F: FnOnce() -> T + Send + 'static,
    T: Send + 'static,
{
    let w = world();
    let me = me();
    let warc: Arc<World> = unsafe {
        // SAFETY: `world()` points into a live Arc; bump its count to hand a clone to the child.
        Arc::increment_strong_count(w as *const World);
        Arc::from_raw(w as *const World)
    };
    let id = {
        let mut g = w.m.lock().unwrap();
        let cmd = g.cur_cmd;
        let j = g.spawn_in_cmd;
        g.spawn_in_cmd += 1;
        let id = g.new_thread(format!("c{}.{}", cmd, j), Role::Unknown, cmd);
        g.ev(me, EvK::Spawn { child: id });
        id
    };
    let res = Arc::new(StdMutex::new(None));
    let h = spawn_os(warc, id, f, res.clone());
    w.m.lock().unwrap().os_handles.push(h);
    yield_point(Pt::SpawnPost);
    (id, Slot(res))
}

pub fn join_thread<T>(id: Tid, slot: &Slot<T>) -> std::thread::Result<T> {
    loop {
        let done = with(|i, _| i.th[id].st == St::Done);
        if done {
            let r = slot.0.lock().unwrap().take().expect("join result taken twice");
            let ok = r.is_ok();
            with(|i, me| i.ev(me, EvK::JoinDone { child: id, ok }));
            return r;
        }
        block(St::Join(id), Pt::Join);
    }
}

pub fn sleep_ns(ns: u64) {
    let w = world();
    let me = me();
    let mut g = w.m.lock().unwrap();
    set_role_if_unknown(&mut g, me, Role::Timer);
    let name = g.th[me].name.clone();
    let over = if g.scripted {
        g.script_oversleeps.iter().find(|(n, _)| *n == name).map(|(_, o)| *o).unwrap_or(0)
    } else if g.params.oversleep_max > 0 && g.th[me].role == Role::Timer {
        let r = g.rnd();
        if r % 3 == 0 {
            0
        } else {
            g.rnd() % (g.params.oversleep_max + 1)
        }
    } else {
        0
    };
    if over > 0 {
        g.oversleep_rec.push((name, over));
        g.bump("oversleep");
    }
    g.ev(me, EvK::SleepReq { ns, over });
    let dl = g.now.saturating_add(ns).saturating_add(over);
    if dl <= g.now {
        w.switch(g, me, Pt::Sleep, true);
    } else {
        g.th[me].st = St::Sleep(dl);
        w.switch(g, me, Pt::Sleep, false);
    }
    with(|i, me| i.ev(me, EvK::Woke));
    yield_point(Pt::SleepWake);
}

fn spawn_os<F, T>(w: Arc<World>, id: Tid, f: F, res: Arc<StdMutex<Option<std::thread::Result<T>>>>) -> std::thread::JoinHandle<()>
where
    F: FnOnce() -> T + Send + 'static,
    T: Send + 'static,
{
    std::thread::Builder::new()
        .stack_size(64 << 20)
        .spawn(move || {
            CTX_W.with(|c| c.set(Arc::as_ptr(&w)));
            CTX_ME.with(|c| c.set(id));
            // born parked: wait for the baton
            {
                let mut g = w.m.lock().unwrap();
                while g.cur != id && !g.shutdown {
                    g = w.cv.wait(g).unwrap();
                }
                if g.shutdown {
                    g.th[id].st = St::Done;
                    drop(g);
                    CTX_W.with(|c| c.set(std::ptr::null()));
                    return;
                }
                g.ev(id, EvK::Start);
            }
            let r = std::panic::catch_unwind(std::panic::AssertUnwindSafe(|| {
                yield_point(Pt::ThreadStart);
                f()
            }));
            let mut g = match w.m.lock() {
                Ok(g) => g,
                Err(p) => p.into_inner(),
            };
            let is_shutdown = matches!(&r, Err(e) if e.is::<Shutdown>());
            if r.is_err() && !is_shutdown {
                g.th[id].panicked = true;
                let (msg, loc) = LAST_PANIC.with(|c| c.borrow_mut().take()).unwrap_or_else(|| ("<panic without hook record>".into(), String::new()));
                g.ev(id, EvK::Panic { msg, loc });
            }
            *res.lock().unwrap() = Some(r);
            g.th[id].st = St::Done;
            let polls = g.th[id].polls;
            if !is_shutdown {
                g.ev(id, EvK::Exit { polls });
                g.th[id].exited_at_seq = Some(g.seq);
            }
            g.wake_where(|s| *s == St::Join(id));
            if g.shutdown {
                drop(g);
                CTX_W.with(|c| c.set(std::ptr::null()));
                return;
            }
            if id == 0 {
                // the engine's main function returned or panicked: the process ends
                if g.verdict.is_none() {
                    g.verdict = Some(if g.th[0].panicked { Verdict::MainPanicked } else { Verdict::Exit(Ok(())) });
                    g.snapshot_states();
                }
                g.shutdown = true;
                w.cv.notify_all();
            } else {
                g.steps += 1;
                match g.pick(id, Pt::ThreadExit, false) {
                    Some(n) => {
                        g.switches += 1;
                        g.cur = n;
                        w.cv.notify_all();
                    }
                    None => {
                        let desc: Vec<String> = g
                            .th
                            .iter()
                            .filter(|t| t.st != St::Done)
                            .map(|t| format!("{}:{}", t.name, t.st.describe()))
                            .collect();
                        g.verdict = Some(Verdict::Deadlock(desc.join(", ")));
                        g.snapshot_states();
                        g.shutdown = true;
                        w.cv.notify_all();
                    }
                }
            }
            drop(g);
            CTX_W.with(|c| c.set(std::ptr::null()));
        })
        .expect("OS thread spawn failed")
}

// ---------------------------------------------------------------- stdio
pub fn stdin_next() -> Option<String> {
    loop {
        yield_point(Pt::StdinRead);
        let got = with(|i, me| {
            if let Some((id, l)) = i.stdin_q.pop_front() {
                i.cur_cmd = id;
                i.spawn_in_cmd = 0;
                i.ev(me, EvK::Read { id, line: l.clone() });
                Some(Some(l))
            } else if i.stdin_eof {
                i.ev(me, EvK::ReadEof);
                Some(None)
            } else {
                None
            }
        });
        match got {
            Some(x) => return x,
            None => block(St::Stdin, Pt::StdinBlocked),
        }
    }
}

fn out_points(s: &str) -> (Pt, Pt) {
    let tok = s.split_ascii_whitespace().next().unwrap_or("");
    match tok {
        "bestmove" => (Pt::OutPreBest, Pt::OutPostBest),
        "info" => (Pt::OutPreInfo, Pt::OutPostInfo),
        "readyok" => (Pt::OutPreReady, Pt::OutPostReady),
        "error:" => (Pt::OutPreErr, Pt::OutPostErr),
        _ => (Pt::OutPreOther, Pt::OutPostOther),
    }
}

/// One `print!`/`println!` call: atomic append to the shared line buffer; complete lines are emitted.
pub fn out_write(s: &str) {
    if !in_sim() {
        // harness output outside a simulation goes to the real stdout
        use std::io::Write;
        let _ = std::io::stdout().write_all(s.as_bytes());
        return;
    }
    let (pre, post) = out_points(s);
    yield_point(pre);
    with(|i, me| {
        if !s.is_empty() && !i.out_writers.contains(&me) {
            i.out_writers.push(me);
        }
        i.out_partial.push_str(s);
        while let Some(p) = i.out_partial.find('\n') {
            let line: String = i.out_partial.drain(..=p).collect();
            let line = line.trim_end_matches('\n').to_string();
            let mixed = i.out_writers.len() > 1;
            i.out_writers.clear();
            if !i.out_partial.is_empty() {
                i.out_writers.push(me);
            }
            let tok = line.split_ascii_whitespace().next().unwrap_or("");
            if tok == "bestmove" {
                i.bestmoves += 1;
                i.last_bestmove = line.split_ascii_whitespace().nth(1).map(|s| s.to_string());
                let n = i.bestmoves;
                i.wake_where(|s| matches!(s, St::GuiBest(k) if *k <= n));
                i.wake_where(|s| matches!(s, St::GuiPolls(_)));
            } else if tok == "error:" {
                i.errors += 1;
                i.wake_where(|s| matches!(s, St::GuiBest(_)));
            } else if tok == "readyok" {
                i.readyoks += 1;
                let n = i.readyoks;
                i.wake_where(|s| matches!(s, St::GuiReady(k) if *k <= n));
            }
            if i.th[me].saw_false_at.is_some() && tok == "info" {
                i.th[me].outs_after_false += 1;
            }
            let polls = i.th[me].polls;
            if line.starts_with("info depth") {
                let p = i.item_polls;
                i.item_marks.push(p);
            }
            i.ev(me, EvK::Out { line, polls, mixed });
        }
    });
    yield_point(post);
}

// ---------------------------------------------------------------- GUI side
pub fn gui_send(id: u32, line: &str) {
    yield_point(Pt::GuiSend);
    with(|i, me| {
        i.ev(me, EvK::GuiSend { id, line: line.to_string() });
        i.stdin_q.push_back((id, line.to_string()));
        i.wake_where(|s| *s == St::Stdin);
        if line.split_ascii_whitespace().next() == Some("go") {
            i.best_mark = i.bestmoves;
            i.err_mark = i.errors;
        }
    });
}
pub fn gui_close() {
    yield_point(Pt::GuiSend);
    with(|i, me| {
        i.ev(me, EvK::GuiClose);
        i.stdin_eof = true;
        i.wake_where(|s| *s == St::Stdin);
    });
}
/// Waits until one more `bestmove` than at the GUI's latest `go` has been emitted - or the engine
/// has printed an `error:` line since then (a GUI does not wait for a move after a refusal).
pub fn gui_await_best() {
    loop {
        let (ok, want) = with(|i, _| (i.bestmoves > i.best_mark || i.errors > i.err_mark, i.best_mark + 1));
        if ok {
            return;
        }
        block(St::GuiBest(want), Pt::GuiAwait);
    }
}
pub fn gui_await_ready(n: u64) {
    loop {
        if with(|i, _| i.readyoks >= n) {
            return;
        }
        block(St::GuiReady(n), Pt::GuiAwait);
    }
}
pub fn gui_delay(ns: u64) {
    let dl = with(|i, _| i.now.saturating_add(ns));
    if with(|i, _| i.now >= dl) {
        yield_point(Pt::GuiStep);
    } else {
        block(St::Sleep(dl), Pt::GuiStep);
    }
}
/// Waits until the engine has made `n` more search polls (or answered, or gone idle).
pub fn gui_after_polls(n: u64) {
    if n == 0 {
        yield_point(Pt::GuiStep);
        return;
    }
    let target = with(|i, _| {
        let t = i.total_polls + n;
        i.poll_mark = t;
        t
    });
    block(St::GuiPolls(target), Pt::GuiStep);
}
pub fn gui_last_bestmove() -> Option<String> {
    with(|i, _| i.last_bestmove.clone())
}
pub fn gui_bestmoves() -> u64 {
    with(|i, _| i.bestmoves)
}

/// direct-call mode: start a new item (poll counter back to zero, optional flip instant)
pub fn item_begin(flip_at: Option<u64>) {
    with(|i, _| {
        i.item_polls = 0;
        i.item_marks.clear();
        i.flip_at = flip_at;
        i.th[0].polls = 0;
        i.th[0].saw_false_at = None;
        i.th[0].loads_after_false = 0;
        i.th[0].late_nodes = 0;
        i.th[0].outs_after_false = 0;
    });
    STORES_SINCE_POLL.with(|c| c.set(0));
    LAST_FLAG.with(|c| c.set((0, 0)));
}
pub fn item_info_marks() -> Vec<u64> {
    with(|i, _| i.item_marks.clone())
}
pub fn note(text: String) {
    with(|i, me| i.ev(me, EvK::Note { text }));
}
pub fn capped_capacity(cap: usize) -> usize {
    if in_sim() {
        with(|i, _| cap.min(i.params.tt_cap))
    } else {
        cap.min(1 << 16)
    }
}
pub fn stats_now() -> (u64, u64) {
    with(|i, _| (i.now, i.item_polls))
}

// ---------------------------------------------------------------- panic hook
pub fn install_panic_hook() {
    let prev = std::panic::take_hook();
    std::panic::set_hook(Box::new(move |info| {
        if in_sim() {
            let msg = info
                .payload()
                .downcast_ref::<String>()
                .cloned()
                .or_else(|| info.payload().downcast_ref::<&str>().map(|s| s.to_string()))
                .unwrap_or_else(|| "<non-string panic payload>".into());
            let loc = info.location().map(|l| format!("{}:{}:{}", l.file(), l.line(), l.column())).unwrap_or_default();
            if msg.contains("unsafe precondition") || msg.contains("unreachable_unchecked") || msg.contains("must never be reached") {
                // the process is about to abort (std's unsafe-precondition checks): leave a trace for the driver
                eprintln!("rbsim: non-unwinding panic in simulated thread (unsafe precondition): {} at {}", msg, loc);
            }
            // recorded into the history by the thread's own unwind handler (the hook must not touch the
            // world lock: parked threads take it briefly on every wake-up)
            LAST_PANIC.with(|c| *c.borrow_mut() = Some((msg, loc)));
        } else {
            prev(info);
        }
    }));
}

// ---------------------------------------------------------------- running a simulation
pub struct Outcome {
    pub verdict: Verdict,
    pub events: Vec<Ev>,
    pub threads: Vec<ThInfo>,
    pub decisions: Vec<Decision>,
    pub oversleeps: Vec<(String, u64)>,
    pub steps: u64,
    pub switches: u64,
    pub polls: u64,
    pub now: u64,
    pub faults: BTreeMap<&'static str, u64>,
    pub opps: Vec<Decision>,
    /// hash of the sequence of (role, point, role) at which context switches happened
    pub sig: u64,
    /// hash of the complete event log
    pub log_hash: u64,
}

pub fn render_event(e: &Ev, names: &[ThInfo]) -> String {
    let n = names.get(e.th).map(|t| t.name.as_str()).unwrap_or("?");
    let body = match &e.k {
        EvK::GuiSend { id, line } => format!("> [{}] {}", id, line),
        EvK::GuiClose => "> <EOF>".into(),
        EvK::Read { id, line } => format!("read [{}] {}", id, line),
        EvK::ReadEof => "read <EOF>".into(),
        EvK::Out { line, polls, mixed } => format!("< {}{}   (polls={})", line, if *mixed { "   <<MIXED WRITERS>>" } else { "" }, polls),
        EvK::Store { flag, val } => format!("flag{}.store({})", flag, val),
        EvK::FirstLoad { flag } => format!("first poll of flag{}", flag),
        EvK::SawFalse { flag, poll } => format!("flag{} observed false at poll {}", flag, poll),
        EvK::Spawn { child } => format!("spawn t{} ({})", child, names.get(*child).map(|t| t.name.as_str()).unwrap_or("?")),
        EvK::Start => "thread start".into(),
        EvK::Exit { polls } => format!("thread exit (polls={})", polls),
        EvK::Panic { msg, loc } => format!("PANIC '{}' at {}", msg, loc),
        EvK::SleepReq { ns, over } => format!("sleep({} ns) oversleep={} ns", ns, over),
        EvK::Woke => "woke".into(),
        EvK::Blocked { why } => format!("blocks on {}", why),
        EvK::JoinDone { child, ok } => format!("joined t{} -> {}", child, if *ok { "Ok" } else { "Err(panic)" }),
        EvK::MutexPoisoned => "lock() returned PoisonError".into(),
        EvK::Stall { why, jump_ns } => format!("STALL: blocked on {} while nothing can run; clock jumps {} ns to the next timer", why, jump_ns),
        EvK::LateNode { flag, stores } => format!("LATE NODE: flag{} is down, not looked at for {} completed nodes", flag, stores),
        EvK::Note { text } => format!("# {}", text),
    };
    format!("{:>6} {:>12}ns p{:<7} {:<8} {}", e.seq, e.t, e.tp, n, body)
}

/// Runs one simulation: thread 0 executes `main_fn` (the engine's entry point or a direct-call driver),
/// thread 1 (optional) executes the GUI actor.
pub fn run<M, G>(params: Params, plan: Plan, main_fn: M, gui_fn: Option<G>) -> Outcome
where
    M: FnOnce() -> Result<(), String> + Send + 'static,
    G: FnOnce() + Send + 'static,
{
    let (seed, scripted, decisions, oversleeps) = match plan {
        Plan::Gen { seed } => (seed, false, vec![], vec![]),
        Plan::Scripted { decisions, oversleeps } => (0, true, decisions, oversleeps),
    };
    let mut inner = Inner {
        cur: usize::MAX,
        th: vec![],
        rng: seed.wrapping_mul(0x2545F4914F6CDD1D) ^ 0x5EED_0F_5C4ED,
        now: 0,
        params,
        scripted,
        script_decisions: decisions,
        script_oversleeps: oversleeps,
        stdin_q: VecDeque::new(),
        stdin_eof: false,
        cur_cmd: 0,
        spawn_in_cmd: 0,
        out_partial: String::new(),
        out_writers: vec![],
        events: Vec::with_capacity(256),
        seq: 0,
        bestmoves: 0,
        last_bestmove: None,
        readyoks: 0,
        errors: 0,
        err_mark: 0,
        total_polls: 0,
        item_polls: 0,
        item_marks: vec![],
        flip_at: None,
        steps: 0,
        switches: 0,
        verdict: None,
        verdict_states: vec![],
        shutdown: false,
        next_obj: 0,
        decisions_rec: vec![],
        oversleep_rec: vec![],
        sig: 0xcbf29ce484222325,
        os_handles: vec![],
        faults: BTreeMap::new(),
        opps: vec![],
        pct_changes: vec![],
        pct_low: 1 << 31,
        poll_mark: u64::MAX,
        best_mark: 0,
    };
    if let Policy::Pct(d) = inner.params.policy {
        for _ in 0..d {
            let scale = [20u64, 200, 2_000, 20_000, 100_000][(inner.rnd() % 5) as usize];
            let at = inner.rnd() % scale;
            inner.pct_changes.push(at);
        }
    }
    inner.new_thread("main".into(), Role::Main, 0);
    let has_gui = gui_fn.is_some();
    if has_gui {
        inner.new_thread("gui".into(), Role::Gui, 0);
    }
    let w = Arc::new(World { m: StdMutex::new(inner), cv: Condvar::new() });
    let r0 = Arc::new(StdMutex::new(None));
    let h0 = spawn_os(w.clone(), 0, main_fn, r0.clone());
    let r1: Arc<StdMutex<Option<std::thread::Result<()>>>> = Arc::new(StdMutex::new(None));
    let h1 = gui_fn.map(|g| spawn_os(w.clone(), 1, g, r1.clone()));
    {
        let mut g = w.m.lock().unwrap();
        g.cur = 0;
        w.cv.notify_all();
        while !g.shutdown {
            g = w.cv.wait(g).unwrap();
        }
    }
    w.cv.notify_all();
    h0.join().ok();
    if let Some(h) = h1 {
        h.join().ok();
    }
    loop {
        let hs: Vec<_> = {
            let mut g = match w.m.lock() {
                Ok(g) => g,
                Err(p) => p.into_inner(),
            };
            w.cv.notify_all();
            g.os_handles.drain(..).collect()
        };
        if hs.is_empty() {
            break;
        }
        for h in hs {
            h.join().ok();
        }
    }
    let mut g = match w.m.lock() {
        Ok(g) => g,
        Err(p) => p.into_inner(),
    };
    let mut verdict = g.verdict.clone().unwrap_or(Verdict::Deadlock("no verdict".into()));
    if let Verdict::Exit(Ok(())) = verdict {
        if let Some(Ok(Err(e))) = r0.lock().unwrap().take() {
            verdict = Verdict::Exit(Err(e));
        }
    }
    let states = std::mem::take(&mut g.verdict_states);
    let threads: Vec<ThInfo> = g
        .th
        .iter()
        .enumerate()
        .map(|(ti, t)| ThInfo {
            name: t.name.clone(),
            role: t.role,
            polls: t.polls,
            parent_cmd: t.parent_cmd,
            saw_false_at: t.saw_false_at,
            loads_after_false: t.loads_after_false,
            late_nodes: t.late_nodes,
            outs_after_false: t.outs_after_false,
            exited: t.exited_at_seq.is_some(),
            panicked: t.panicked,
            final_state: states.get(ti).cloned().unwrap_or_else(|| t.st.describe()),
        })
        .collect();
    let events = std::mem::take(&mut g.events);
    let mut h = 0xcbf29ce484222325u64;
    for e in &events {
        fnv(&mut h, render_event(e, &threads).as_bytes());
        fnv(&mut h, b"\n");
    }
    fnv(&mut h, format!("{:?}|{}|{}|{}", verdict, g.total_polls, g.switches, g.now).as_bytes());
    Outcome {
        verdict,
        events,
        threads,
        decisions: std::mem::take(&mut g.decisions_rec),
        oversleeps: std::mem::take(&mut g.oversleep_rec),
        steps: g.steps,
        switches: g.switches,
        polls: g.total_polls,
        now: g.now,
        faults: std::mem::take(&mut g.faults),
        opps: std::mem::take(&mut g.opps),
        sig: g.sig,
        log_hash: h,
    }
}

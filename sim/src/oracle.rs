//! History oracles: evaluate the recorded history of one simulation against the properties.
//! Every rule is about what the *properties* state; where they are silent the oracle is tolerant
//! (e.g. a `go` answered with `error:` is simply "not accepted").

use crate::case::{Case, Mode};
use crate::model::Pos;
use crate::verif_shim::sched::{EvK, Outcome, Role, Tid, Verdict};
use std::collections::BTreeMap;

#[derive(Clone, Debug)]
pub struct Viol {
    pub prop: &'static str,
    pub rule: &'static str,
    pub detail: String,
    /// id of the GUI step / direct item the violation is attached to
    pub at: u32,
    /// direct-call sweeps: the stop index of the failing search
    pub k: Option<u64>,
}

#[derive(Clone, Debug, Default)]
pub struct GoRec {
    pub cmd: u32,
    pub line: String,
    pub root: Option<Pos>,
    pub root_known: bool,
    /// no `position` since the previous `go`: the root is the position that was current then (UCI semantics)
    pub root_is_persisted: bool,
    pub depth: Option<u32>,
    pub movetime: Option<u64>,
    pub clocks: Option<(u64, u64, u64, u64)>,
    pub infinite: bool,
    pub accepted: bool,
    pub read_seq: u64,
    pub read_t: u64,
    /// when the GUI sent this `go`, if it sent it after it had received every outstanding bestmove (engine idle)
    pub sent_idle_t: Option<u64>,
    pub read_tp: u64,
    pub search: Option<Tid>,
    pub search_flag: Option<usize>,
    pub search_start_seq: Option<u64>,
    pub timer: Option<Tid>,
    pub timer_flag: Option<usize>,
    /// every flag the timer thread lowered
    pub timer_flags: Vec<usize>,
    pub timer_store_seq: Option<u64>,
    pub timer_exit_tp: Option<u64>,
    pub raise_seq: Option<u64>,
    pub sleep_ns: Option<u64>,
    pub over_ns: u64,
    pub info_time_ms: Option<u128>,
    pub infos: Vec<(u64, u32, u64)>, // (seq, depth, search polls at emission)
    pub info_times: Vec<u64>,
    pub pvs: Vec<Vec<String>>,
    pub best: Option<String>,
    pub best_seq: u64,
    pub best_t: u64,
    pub best_polls: u64,
    pub n_best: u32,
    pub stop_read_seq: Option<u64>,
    pub stop_store_tp: Option<u64>,
    pub stop_store_seq: Option<u64>,
    pub stop_store_t: Option<u64>,
    pub stop_kind: Option<&'static str>,
    pub search_exit_polls: Option<u64>,
    pub search_exited: bool,
    pub spawned: u32,
    /// every stdout line written by this go's threads, in order
    pub outs: Vec<String>,
}

#[derive(Default)]
pub struct Analysis {
    pub viols: Vec<Viol>,
    pub gos: Vec<GoRec>,
    pub probes: BTreeMap<&'static str, u64>,
    /// run ended on a budget while the engine owed nothing
    pub inconclusive: bool,
    pub accepted_gos: u32,
    pub answered_gos: u32,
    pub infos_checked: u32,
    pub pv_moves_checked: u32,
    pub stops_observed: u32,
    pub distinct_keys: Vec<String>,
    cur_k: Option<u64>,
}

impl Analysis {
    fn v(&mut self, prop: &'static str, rule: &'static str, at: u32, detail: String) {
        let k = self.cur_k;
        self.viols.push(Viol { prop, rule, detail, at, k });
    }
    fn probe(&mut self, k: &'static str) {
        *self.probes.entry(k).or_insert(0) += 1;
    }
}

enum Cur {
    None,
    Known(Pos, usize),
    Unknown,
}

fn parse_position(line: &str) -> Result<(Pos, usize), String> {
    let mut t = line.split_ascii_whitespace();
    t.next(); // position
    let mut pos = match t.next() {
        Some("startpos") => Pos::startpos(),
        Some("fen") => {
            let mut f = vec![];
            for x in t.by_ref() {
                if x == "moves" {
                    break;
                }
                f.push(x);
            }
            let p = Pos::from_fen(&f.join(" "))?;
            // re-scan: moves keyword already consumed when present
            let rest: Vec<&str> = line.split_ascii_whitespace().skip_while(|x| *x != "moves").skip(1).collect();
            let mut p2 = p;
            let mut n = 0;
            for m in rest {
                if !p2.play(m) {
                    return Err(format!("model: illegal move {}", m));
                }
                n += 1;
            }
            return Ok((p2, n));
        }
        _ => return Err("model: malformed position command".into()),
    };
    let mut n = 0;
    if t.next() == Some("moves") {
        for m in t {
            if !pos.play(m) {
                return Err(format!("model: illegal move {}", m));
            }
            n += 1;
        }
    }
    Ok((pos, n))
}

fn classify_panic(a: &mut Analysis, msg: &str, loc: &str, at: u32, on_search: bool) {
    let unchecked = msg.contains("unsafe precondition")
        || loc.contains("arrayvec")
        || loc.contains("chess/position.rs")
        || msg.contains("capacity")
        || msg.contains("push_unchecked")
        || msg.contains("unwrap_unchecked");
    let d = format!("panic '{}' at {}", msg, loc);
    if unchecked {
        a.v("C15", "R1-unchecked-precondition", at, d.clone());
    }
    // C08: a search must not crash, wherever in the code the crash surfaces
    if on_search || loc.contains("search.rs") || msg.contains("overflow") || msg.contains("index out of bounds") {
        a.v("C08", "R2-search-crash", at, d.clone());
    }
    if loc.contains("uci.rs") && (msg.contains("overflow") || msg.contains("subtract")) {
        a.v("C13", "R4-panic-in-go", at, d.clone());
    }
    a.v("C14", "R1-panic", at, d);
}

pub fn analyse(case: &Case, out: &Outcome) -> Analysis {
    match case.mode {
        Mode::Session => analyse_session(case, out),
        Mode::Direct => analyse_direct(case, out),
        Mode::Autoplay => analyse_autoplay(case, out),
    }
}

fn check_answer(a: &mut Analysis, g: &GoRec, stopped: bool) {
    let Some(root) = &g.root else { return };
    let Some(best) = &g.best else { return };
    let legal = root.legal_moves();
    let ok = if best == "none" { legal.is_empty() } else { legal.iter().any(|m| m == best) };
    if ok {
        return;
    }
    let what = if best == "none" {
        format!("`bestmove none` although {} legal moves exist in {}", legal.len(), root.to_fen())
    } else {
        format!("`bestmove {}` is not legal in {}", best, root.to_fen())
    };
    if !g.infos.is_empty() {
        a.v("C06", "R1-illegal-bestmove", g.cmd, format!("{} ({} iteration(s) reported; `{}`)", what, g.infos.len(), g.line));
    }
    if stopped || g.infos.is_empty() {
        a.v("C07", "R1-stopped-answer", g.cmd, format!("{} (stopped by {}; `{}`)", what, g.stop_kind.unwrap_or("?"), g.line));
    }
}

fn check_pvs(a: &mut Analysis, g: &GoRec) {
    let Some(root) = &g.root else { return };
    for pv in &g.pvs {
        let mut p = root.clone();
        for (k, m) in pv.iter().enumerate() {
            a.pv_moves_checked += 1;
            if !p.play(m) {
                a.v("C18", "R1-unplayable-pv", g.cmd, format!("`info pv {}`: move #{} ({}) is not legal in {} (root {}, `{}`)", pv.join(" "), k + 1, m, p.to_fen(), root.to_fen(), g.line));
                break;
            }
        }
        a.infos_checked += 1;
    }
}

/// C08-R1 second half: an iteration deeper than the limit may be *reported* (a cached deeper answer) but must not have
/// been *searched*. One look at the stop flag per reported iteration is not a search (an engine may poll in its
/// iteration loop); a searched iteration polls at least once per legal root move, and roots with a single legal move are
/// answered without any.
fn check_deeper_than_limit(a: &mut Analysis, g: &GoRec, n: u32) {
    let mut prev_polls = 0u64;
    for &(_, d, polls_at) in &g.infos {
        if d > n && polls_at > prev_polls + 1 {
            a.v("C08", "R1-searched-deeper-than-limit", g.cmd, format!("{}: the iteration reported as `info depth {}` expanded {} node(s) although the limit is {}", g.line, d, polls_at - prev_polls, n));
            break;
        }
        prev_polls = polls_at;
    }
}

fn parse_go(line: &str, g: &mut GoRec) {
    let mut t = line.split_ascii_whitespace();
    let (mut wt, mut bt, mut wi, mut bi) = (None, None, None, None);
    while let Some(x) = t.next() {
        match x {
            // C08 speaks of limits 1..255; `depth 0` is answered like `depth 1` and judged as such
            "depth" => g.depth = t.next().and_then(|s| s.parse::<u8>().ok()).map(|d| (d as u32).max(1)),
            "movetime" => g.movetime = t.next().and_then(|s| s.parse().ok()),
            "wtime" => wt = t.next().and_then(|s| s.parse().ok()),
            "btime" => bt = t.next().and_then(|s| s.parse().ok()),
            "winc" => wi = t.next().and_then(|s| s.parse().ok()),
            "binc" => bi = t.next().and_then(|s| s.parse().ok()),
            "infinite" => g.infinite = true,
            _ => {}
        }
    }
    if let (Some(a), Some(b), Some(c), Some(d)) = (wt, bt, wi, bi) {
        g.clocks = Some((a, b, c, d));
    }
}

pub fn analyse_session(case: &Case, out: &Outcome) -> Analysis {
    let mut a = Analysis::default();
    let mut cur = Cur::None;
    // by the protocol the position last set stays current; the pinned engine drops it after a search and then refuses a
    // second `go`, but an engine that accepts one is asked about this position
    let mut last_set: Option<Pos> = None;
    let mut gos: Vec<GoRec> = vec![];
    let mut thread_go: BTreeMap<Tid, usize> = BTreeMap::new();
    let mut sent_seq: BTreeMap<u32, u64> = BTreeMap::new();
    let mut sent_time: BTreeMap<u32, u64> = BTreeMap::new();
    // current main command
    let mut cmd_id: u32 = 0;
    let mut cmd_tok = String::new();
    let mut cmd_line = String::new();
    let mut cmd_errs: Vec<String> = vec![];
    let mut cmd_outs: Vec<String> = vec![];
    let mut cmd_readyok = 0u32;
    let mut cmd_go: Option<usize> = None;
    let mut cmd_pos: Option<Result<(Pos, usize), String>> = None;
    let mut last_best_seq: u64 = 0; // seq of the latest bestmove of an accepted go
    let mut outstanding: Option<usize> = None; // accepted go without bestmove yet
    let mut isready_sent = 0u32;
    let mut readyok_seen = 0u32;
    let mut quit_read = false;
    let mut eof_read = false;
    let mut end_read_seq: Option<u64> = None; // when `quit` or EOF was read
    let role = |t: Tid| out.threads.get(t).map(|x| x.role).unwrap_or(Role::Unknown);

    // finalises the command main was processing
    macro_rules! finalize {
        () => {{
            match cmd_tok.as_str() {
                "position" => {
                    let sent_after_best = sent_seq.get(&cmd_id).copied().unwrap_or(0) > last_best_seq && outstanding.is_none();
                    if cmd_errs.is_empty() {
                        cur = match cmd_pos.take() {
                            Some(Ok((p, n))) => Cur::Known(p, n),
                            _ => Cur::Unknown,
                        };
                    } else {
                        let busy = cmd_errs.iter().any(|e| e.contains("search is still running"));
                        match cmd_pos.take() {
                            Some(Ok((_, n))) if n < 399 => {
                                if busy && sent_after_best {
                                    a.v("C14", "R5-command-after-bestmove-refused", cmd_id, format!("`{}` was sent after the GUI had received every outstanding bestmove, engine answered `{}`", cmd_line, cmd_errs.join(" | ")));
                                } else if !busy && sent_after_best {
                                    a.v("C14", "R5-position-not-honoured", cmd_id, format!("valid `{}` answered `{}`", cmd_line, cmd_errs.join(" | ")));
                                }
                            }
                            _ => {}
                        }
                        if !busy {
                            cur = Cur::Unknown;
                        }
                    }
                }
                "go" => {
                    if let Some(gi) = cmd_go.take() {
                        let sent_after_best = sent_seq.get(&cmd_id).copied().unwrap_or(0) > last_best_seq && outstanding.is_none();
                        if cmd_errs.is_empty() {
                            gos[gi].accepted = true;
                            if gos[gi].n_best > 0 {
                                // answered before the stdin loop was back at its read
                                last_best_seq = last_best_seq.max(gos[gi].best_seq);
                            } else {
                                outstanding = Some(gi);
                            }
                            cur = Cur::None;
                        } else {
                            let busy = cmd_errs.iter().any(|e| e.contains("search is still running"));
                            if busy && sent_after_best {
                                a.v("C14", "R5-command-after-bestmove-refused", cmd_id, format!("`{}` was sent after the GUI had received every outstanding bestmove, engine answered `{}`", cmd_line, cmd_errs.join(" | ")));
                            } else if !busy && sent_after_best && gos[gi].root_known && gos[gi].root.is_some() && !gos[gi].root_is_persisted {
                                a.v("C14", "R5-go-not-honoured", cmd_id, format!("`{}` after an accepted position answered `{}`", cmd_line, cmd_errs.join(" | ")));
                            }
                        }
                    }
                }
                "show" | "d" => {
                    if cmd_errs.is_empty() {
                        if let Cur::Known(p, _) = &cur {
                            let fen_line = cmd_outs.iter().flat_map(|o| o.lines()).find(|l| l.starts_with("Fen: "));
                            match fen_line {
                                Some(l) => {
                                    let f: Vec<&str> = l[5..].split_ascii_whitespace().collect();
                                    let ok = f.len() >= 4
                                        && f[0] == p.placement()
                                        && (f[1] == "w") == p.white_to_move()
                                        && f[2] == p.castling()
                                        && (f[3] == "-" || Some(f[3].to_string()) == p.ep_square());
                                    // what `show` prints is the business of C11/C20 (not claimed): an observation only
                                    if !ok {
                                        a.probe("show printed a position that differs from the reference model's");
                                    } else {
                                        a.probe("show agreed with the reference model");
                                    }
                                }
                                None => a.probe("show printed no Fen line"),
                            }
                        }
                    }
                }
                "isready" => {
                    if cmd_readyok != 1 {
                        a.v("C14", "R4-isready", cmd_id, format!("`isready` answered with {} readyok lines", cmd_readyok));
                    }
                }
                "ucinewgame" => {
                    cur = Cur::None;
                    last_set = None;
                }
                _ => {}
            }
            cmd_errs.clear();
            cmd_outs.clear();
            cmd_readyok = 0;
            cmd_tok.clear();
        }};
    }

    for e in &out.events {
        match &e.k {
            EvK::GuiSend { id, line } => {
                sent_seq.insert(*id, e.seq);
                sent_time.insert(*id, e.t);
                if line.split_ascii_whitespace().next() == Some("isready") {
                    isready_sent += 1;
                }
            }
            EvK::GuiClose => {}
            EvK::Read { id, line } => {
                finalize!();
                cmd_id = *id;
                cmd_line = line.clone();
                cmd_tok = line.split_ascii_whitespace().next().unwrap_or("").to_string();
                match cmd_tok.as_str() {
                    "position" => cmd_pos = Some(parse_position(line)),
                    "go" => {
                        let mut g = GoRec { cmd: *id, line: line.clone(), read_seq: e.seq, read_t: e.t, read_tp: e.tp, ..Default::default() };
                        if sent_seq.get(id).copied().unwrap_or(0) > last_best_seq && outstanding.is_none() {
                            g.sent_idle_t = sent_time.get(id).copied();
                        }
                        match &cur {
                            Cur::Known(p, _) => {
                                g.root = Some(p.clone());
                                g.root_known = true;
                                last_set = Some(p.clone());
                            }
                            Cur::None => {
                                g.root_known = true;
                                g.root = last_set.clone();
                                g.root_is_persisted = g.root.is_some();
                            }
                            Cur::Unknown => {
                                last_set = None;
                            }
                        }
                        parse_go(line, &mut g);
                        gos.push(g);
                        cmd_go = Some(gos.len() - 1);
                    }
                    "stop" | "ucinewgame" => {
                        if let Some(gi) = outstanding {
                            if gos[gi].stop_read_seq.is_none() {
                                gos[gi].stop_read_seq = Some(e.seq);
                                gos[gi].stop_kind = Some(if cmd_tok == "stop" { "stop" } else { "ucinewgame" });
                            }
                            a.probe(if cmd_tok == "stop" { "stop read while a search was outstanding" } else { "ucinewgame read while a search was outstanding" });
                        } else if cmd_tok == "stop" {
                            a.probe("stop read with no search outstanding");
                        }
                    }
                    "quit" => {
                        quit_read = true;
                        end_read_seq.get_or_insert(e.seq);
                        if outstanding.is_some() {
                            a.probe("quit read while a search was outstanding");
                        }
                    }
                    "isready" => {
                        if outstanding.is_some() {
                            a.probe("isready read while a search was outstanding");
                        }
                    }
                    _ => {}
                }
                if let Some(gi) = outstanding {
                    // a command read after the bestmove was written but before the search thread is gone
                    if gos[gi].n_best > 0 && !gos[gi].search_exited {
                        a.probe("command read between bestmove and search-thread exit");
                    }
                }
            }
            EvK::ReadEof => {
                finalize!();
                eof_read = true;
                end_read_seq.get_or_insert(e.seq);
                if outstanding.is_some() {
                    a.probe("EOF read while a search was outstanding");
                }
            }
            EvK::Out { line, polls, mixed } => {
                if *mixed {
                    a.v("C14", "R7-glued-line", cmd_id, format!("stdout line `{}` was assembled from the output of more than one thread", line));
                }
                let tok = line.split_ascii_whitespace().next().unwrap_or("");
                if e.th == 0 {
                    cmd_outs.push(line.clone());
                    if tok == "error:" {
                        cmd_errs.push(line.clone());
                    } else if tok == "readyok" {
                        cmd_readyok += 1;
                        readyok_seen += 1;
                        if outstanding.is_some() {
                            a.probe("readyok written while a search was outstanding");
                        }
                    } else if line.starts_with("info time ") {
                        if let Some(gi) = cmd_go {
                            gos[gi].info_time_ms = line[10..].trim().parse().ok();
                        }
                    } else if tok == "bestmove" {
                        // an engine may announce the move from its stdin loop (e.g. after joining the search): it then
                        // answers the outstanding go, if there is one
                        let target = outstanding.or(cmd_go);
                        match target {
                            Some(gi) => {
                                let g = &mut gos[gi];
                                g.n_best += 1;
                                if g.n_best == 1 {
                                    g.best = line.split_ascii_whitespace().nth(1).map(|s| s.to_string());
                                    g.best_seq = e.seq;
                                    g.best_t = e.t;
                                    g.best_polls = g.search.and_then(|t| out.threads.get(t)).map_or(0, |t| t.polls);
                                    last_best_seq = e.seq;
                                    if outstanding == Some(gi) {
                                        outstanding = None;
                                    }
                                }
                            }
                            None => a.v("C14", "R3-bestmove-count", cmd_id, format!("`{}` written although no `go` is outstanding", line)),
                        }
                    }
                } else if let Some(&gi) = thread_go.get(&e.th) {
                    let g = &mut gos[gi];
                    g.outs.push(line.clone());
                    if let Some(d) = line.strip_prefix("info depth ") {
                        if let Ok(d) = d.trim().parse::<u32>() {
                            g.infos.push((e.seq, d, *polls));
                            g.info_times.push(e.t);
                        }
                    } else if let Some(pv) = line.strip_prefix("info pv") {
                        g.pvs.push(pv.split_ascii_whitespace().map(|s| s.to_string()).collect());
                    } else if tok == "bestmove" {
                        g.n_best += 1;
                        if g.n_best == 1 {
                            g.best = line.split_ascii_whitespace().nth(1).map(|s| s.to_string());
                            g.best_seq = e.seq;
                            g.best_t = e.t;
                            g.best_polls = *polls;
                            if g.accepted {
                                last_best_seq = e.seq;
                                if outstanding == Some(gi) {
                                    outstanding = None;
                                }
                            }
                        }
                    }
                } else if tok == "bestmove" {
                    a.v("C14", "R3-bestmove-count", cmd_id, format!("`{}` written by a thread that belongs to no `go`", line));
                }
            }
            EvK::Spawn { child } => {
                if e.th == 0 {
                    if let Some(gi) = cmd_go {
                        thread_go.insert(*child, gi);
                        gos[gi].spawned += 1;
                    }
                } else if let Some(&gi) = thread_go.get(&e.th) {
                    // a thread started by one of a go's threads works for the same go
                    thread_go.insert(*child, gi);
                    gos[gi].spawned += 1;
                }
            }
            EvK::Start => {
                if let Some(&gi) = thread_go.get(&e.th) {
                    if role(e.th) == Role::Search {
                        gos[gi].search_start_seq = Some(e.seq);
                    }
                }
            }
            EvK::Store { flag, val } => {
                if e.th == 0 {
                    if *val {
                        if let Some(gi) = cmd_go {
                            gos[gi].raise_seq = Some(e.seq);
                        }
                    } else if let Some(gi) = outstanding {
                        if gos[gi].stop_read_seq.is_some() && gos[gi].stop_store_tp.is_none() {
                            gos[gi].stop_store_tp = Some(e.tp);
                            gos[gi].stop_store_seq = Some(e.seq);
                            gos[gi].stop_store_t = Some(e.t);
                            if gos[gi].search_start_seq.is_none() {
                                a.probe("stop processed before the search thread started");
                            }
                        }
                    }
                } else if let Some(&gi) = thread_go.get(&e.th) {
                    if role(e.th) == Role::Timer && !*val {
                        gos[gi].timer_flag = Some(*flag);
                        gos[gi].timer_flags.push(*flag);
                        if gos[gi].timer_store_seq.is_none() {
                            gos[gi].timer_store_seq = Some(e.seq);
                        }
                        if gos[gi].stop_kind.is_none() && gos[gi].n_best == 0 {
                            gos[gi].stop_kind = Some("timer");
                        }
                        if gos[gi].raise_seq.map_or(true, |r| e.seq < r) {
                            a.probe("timer fired before the running flag was raised");
                        }
                        if gos[gi].n_best > 0 {
                            a.probe("timer fired after the search had already answered");
                        }
                    }
                }
            }
            EvK::FirstLoad { flag } => {
                if let Some(&gi) = thread_go.get(&e.th) {
                    gos[gi].search = Some(e.th);
                    gos[gi].search_flag = Some(*flag);
                }
            }
            EvK::SawFalse { poll, .. } => {
                if let Some(&gi) = thread_go.get(&e.th) {
                    if *poll == 1 {
                        a.probe("stop observed at the very first poll");
                    }
                    let _ = gi;
                }
            }
            EvK::SleepReq { ns, over } => {
                if let Some(&gi) = thread_go.get(&e.th) {
                    gos[gi].timer = Some(e.th);
                    gos[gi].sleep_ns = Some(*ns);
                    gos[gi].over_ns = *over;
                }
            }
            EvK::Exit { polls } => {
                if let Some(&gi) = thread_go.get(&e.th) {
                    match role(e.th) {
                        Role::Timer => gos[gi].timer_exit_tp = Some(e.tp),
                        _ => {
                            gos[gi].search_exit_polls = Some(*polls);
                            gos[gi].search_exited = true;
                        }
                    }
                }
            }
            EvK::Panic { msg, loc } => {
                classify_panic(&mut a, msg, loc, cmd_id, e.th != 0 && thread_go.contains_key(&e.th) && role(e.th) != Role::Timer);
            }
            EvK::Blocked { why } => {
                if why == "stdin" {
                    // the stdin loop is back at its read: the command it was processing is complete
                    finalize!();
                }
                if cmd_tok == "isready" && cmd_readyok == 0 {
                    a.v("C14", "R4-isready", cmd_id, format!("main thread blocks on {} before answering `isready`", why));
                } else if (cmd_tok == "quit" || eof_read) && !why.starts_with("stdin") {
                    a.v("C14", "R8-exit", cmd_id, format!("main thread blocks on {} after quit/EOF", why));
                }
            }
            EvK::MutexPoisoned => {}
            EvK::Stall { why, jump_ns } => {
                // the stdin loop can only proceed once a timer fires: until then no command (isready, quit, the next
                // position/go) is answered, for as long as the time budget the GUI happened to give
                a.v("C14", "R4-unresponsive", cmd_id, format!("while processing `{}` the stdin loop is blocked on {} and nothing can run until a timer fires {} ns later", cmd_line, why, jump_ns));
            }
            EvK::JoinDone { .. } | EvK::Woke | EvK::Note { .. } | EvK::LateNode { .. } => {}
        }
    }
    // the command main was processing when the run ended is judged only if it was completed
    let main_idle = matches!(out.verdict, Verdict::Exit(_)) || out.threads[0].final_state == "stdin";
    if main_idle {
        finalize!();
    }
    let _ = cmd_go.take();

    // ---- per-go rules
    let total_tp = out.polls;
    for g in &gos {
        if !g.accepted {
            continue;
        }
        a.accepted_gos += 1;
        if g.n_best > 1 {
            a.v("C14", "R3-bestmove-count", g.cmd, format!("`{}` answered with {} bestmove lines", g.line, g.n_best));
        }
        if g.n_best >= 1 {
            a.answered_gos += 1;
        }
        let th = g.search.and_then(|t| out.threads.get(t));
        let stopped = th.map_or(false, |t| t.saw_false_at.is_some());
        // C06 / C07-R1
        check_answer(&mut a, g, stopped);
        // C18
        check_pvs(&mut a, g);
        // C07-R2 promptness
        if let Some(t) = th {
            if t.saw_false_at.is_some() {
                if t.loads_after_false > 0 {
                    a.v("C07", "R2-not-prompt", g.cmd, format!("search of `{}` polled {} more node(s) after it had observed the stop at poll {}", g.line, t.loads_after_false, t.saw_false_at.unwrap()));
                }
                if t.outs_after_false > 0 {
                    a.v("C07", "R2-not-prompt", g.cmd, format!("search of `{}` reported {} more info line(s) after it had observed the stop", g.line, t.outs_after_false));
                }
            }
            if t.late_nodes > 0 {
                a.v("C07", "R2-not-prompt", g.cmd, format!("search of `{}` completed {} more node(s) with the stop already delivered, {} or more nodes after it had last looked at its flag", g.line, t.late_nodes, crate::verif_shim::sched::UNPOLLED_GRACE));
            }
        }
        // C07-R2 measured from the arrival of the stop: after the stop/timer store on this search's flag at most one more
        // iteration may be reported (the one whose nodes were already done, or a root answered from the table)
        {
            let arrival = [g.stop_store_seq, g.timer_store_seq].iter().flatten().min().copied();
            if let Some(t0) = arrival {
                let later = g.infos.iter().filter(|(seq, _, _)| *seq > t0).count();
                if later > 1 && g.raise_seq.map_or(true, |r| r < t0) {
                    a.v("C07", "R2-not-prompt", g.cmd, format!("`{}`: {} further iterations were completed and reported after the stop had arrived", g.line, later));
                }
            }
        }
        // ... and in simulated time: once `stop` (or `ucinewgame`) has lowered the flag the answer follows within the polls
        // the scheduler itself may interpose; time passes only at node polls and when nothing can run
        if let (Some(t0), true) = (g.stop_store_t, g.n_best > 0) {
            let slack = (case.params.fair as u64 + 3) * case.params.node_cost;
            if g.best_seq > g.stop_store_seq.unwrap_or(0) && g.best_t > t0 + slack {
                a.v("C07", "R2-not-prompt", g.cmd, format!("`{}`: the bestmove came {} ns after the stop had been processed", g.line, g.best_t - t0));
            }
        }
        // C08-R1 depth limit, R3 monotone depth
        if let Some(n) = g.depth {
            check_deeper_than_limit(&mut a, g, n);
            if let Some(&(_, d, polls_at)) = g.infos.iter().find(|(_, d, _)| *d >= n) {
                let end_polls = if g.n_best > 0 { g.best_polls } else { th.map_or(polls_at, |t| t.polls) };
                if end_polls > polls_at {
                    a.v("C08", "R1-runs-past-depth-limit", g.cmd, format!("`{}`: after `info depth {}` the search expanded {} more node(s){}", g.line, d, end_polls - polls_at, if g.n_best == 0 { " and never answered" } else { "" }));
                    a.v("C14", "R3-no-bestmove-at-depth-limit", g.cmd, format!("`{}` reached depth {} but kept searching", g.line, d));
                }
            }
        }
        // the answer follows the completed depth at once: simulated time only passes at node polls and when nothing can
        // run, so any time between the iteration that reached the limit and the bestmove means the search thread waited
        if let (Some(n), true) = (g.depth, g.n_best > 0) {
            if let Some(i) = g.infos.iter().position(|(_, d, _)| *d >= n) {
                if let Some(&t_info) = g.info_times.get(i) {
                    let slack = (case.params.fair as u64 + 2) * case.params.node_cost;
                    if g.best_t > t_info + slack && g.best_polls == g.infos[i].2 {
                        a.v("C08", "R1-answer-delayed-after-depth-limit", g.cmd, format!("`{}`: depth {} was complete at {} ns, the bestmove only came {} ns later although nothing more was searched", g.line, g.infos[i].1, t_info, g.best_t - t_info));
                        a.v("C14", "R3-no-bestmove-at-depth-limit", g.cmd, format!("`{}` reached depth {} but announced its move only {} ns later", g.line, g.infos[i].1, g.best_t - t_info));
                    }
                }
            }
        }
        // a search without any limit keeps deepening for as long as it is left running: it may answer by itself only
        // when there is nothing left to search (no or one legal move, a forced mate found, the engine's deepest iteration)
        if g.depth.is_none() && g.movetime.is_none() && g.clocks.is_none() && g.n_best > 0 {
            let left_alone = g.stop_read_seq.map_or(true, |s| s > g.best_seq) && end_read_seq.map_or(true, |s| s > g.best_seq) && g.timer_store_seq.is_none();
            let legal = g.root.as_ref().map(|p| p.legal_moves().len());
            let last_score: Option<i64> = g.outs.iter().rev().find_map(|l| l.strip_prefix("info score cp ").and_then(|x| x.trim().parse().ok()));
            let deepest = g.infos.iter().map(|x| x.1).max().unwrap_or(0);
            if left_alone && g.root_known && legal.map_or(false, |n| n >= 2) && deepest >= 1 && deepest < 30 && last_score.map_or(false, |x| x.abs() < 31_000) {
                a.v("C08", "R4-unlimited-search-ended-by-itself", g.cmd, format!("`{}`: nobody stopped it, yet it answered after iteration {} (score {}, {} legal moves at the root)", g.line, deepest, last_score.unwrap_or(0), legal.unwrap_or(0)));
            }
        }
        for w in g.infos.windows(2) {
            if w[1].1 <= w[0].1 {
                a.v("C08", "R3-depth-not-increasing", g.cmd, format!("`{}`: `info depth {}` followed by `info depth {}`", g.line, w[0].1, w[1].1));
                break;
            }
        }
        if let Some(&(_, d, _)) = g.infos.last() {
            if d >= 34 {
                a.probe("iteration depth >= 34 reached");
            }
            if d >= 64 {
                a.probe("iteration depth >= 64 reached");
            }
        }
        // C13
        let timed = !g.infinite && (g.movetime.is_some() || g.clocks.is_some());
        if timed {
            let limit_ms: Option<u64> = if let Some(m) = g.movetime {
                Some(m)
            } else if let (Some((wt, bt, _, _)), Some(root)) = (g.clocks, &g.root) {
                Some(if root.white_to_move() { wt } else { bt })
            } else {
                None
            };
            // what the simulator itself may add: the timer thread passes 5 yield points (start, sleep, wake-up,
            // store.pre, store) at each of which it can be passed over for at most FAIR+1 polls, plus one poll
            // of clock granularity and one poll to observe the flag
            let slack = (5 * (case.params.fair as u64 + 1) + 2) * case.params.node_cost;
            if let Some(ns) = g.sleep_ns {
                if let Some(l) = limit_ms {
                    if ns as u128 > l as u128 * 1_000_000 {
                        a.v("C13", "R1-budget-exceeds-clock", g.cmd, format!("`{}`: allotted {} ns of thinking time, more than the {} ms available", g.line, ns, l));
                    }
                    if let Some(it) = g.info_time_ms {
                        if it > l as u128 {
                            a.v("C13", "R1-budget-exceeds-clock", g.cmd, format!("`{}`: `info time {}` exceeds the {} ms available", g.line, it, l));
                        }
                    }
                }
                // lateness against the time the engine allotted itself
                if g.n_best > 0 {
                    let allowed = ns.saturating_add(g.over_ns).saturating_add(slack);
                    let took = g.best_t - g.read_t;
                    if took > allowed {
                        a.v("C13", "R3-late", g.cmd, format!("`{}`: bestmove after {} ns, allotted {} ns (+{} oversleep, +{} scheduling slack)", g.line, took, ns, g.over_ns, slack));
                    }
                    if let Some(l) = limit_ms {
                        if case.has_tag("tight") && l >= 10 && took > l * 1_000_000 {
                            a.v("C13", "R3-late", g.cmd, format!("`{}`: bestmove after {} ns, later than the {} ms available (tight regime)", g.line, took, l));
                        }
                    }
                }
                // observations, not verdicts: how the engine arms its timer is its own business
                if g.spawned < 2 {
                    a.probe("timed go that started no thread besides the search");
                }
                if let Some(sf) = g.search_flag {
                    if !g.timer_flags.is_empty() && !g.timer_flags.contains(&sf) {
                        a.probe("timer lowered a flag other than the one the search polled first");
                    }
                }
            } else if g.spawned < 2 {
                a.probe("timed go that started no thread besides the search");
            }
            // lateness against the time available, whatever mechanism the engine uses to stop itself
            if let Some(l) = limit_ms {
                let limit_ns = (l as u128 * 1_000_000).min(u64::MAX as u128 / 2) as u64;
                let allowed = limit_ns.saturating_add(4_000_000).saturating_add(slack);
                if g.n_best > 0 {
                    let took = g.best_t - g.read_t;
                    if took > allowed {
                        a.v("C13", "R3-late", g.cmd, format!("`{}`: bestmove after {} ns although only {} ms were available (+{} ns of simulator slack)", g.line, took, l, allowed - limit_ns));
                    }
                    // the GUI's clock runs from the moment it sends the `go`: when it sent it to an idle engine (every
                    // earlier bestmove received), the time until the engine gets round to reading it counts as well; the
                    // stdin loop passes about a dozen scheduling points between two commands
                    if let Some(ts) = g.sent_idle_t {
                        let main_slack = 12 * (case.params.fair as u64 + 1) * case.params.node_cost;
                        let took = g.best_t.saturating_sub(ts);
                        if took > allowed.saturating_add(main_slack) {
                            a.v("C13", "R3-late", g.cmd, format!("`{}`: sent to an idle engine, bestmove {} ns after the GUI sent it although only {} ms were available (the engine read the command {} ns after it was sent)", g.line, took, l, g.read_t.saturating_sub(ts)));
                        }
                    }
                } else if matches!(out.verdict, Verdict::StepLimit | Verdict::PollLimit) && out.now.saturating_sub(g.read_t) > allowed {
                    a.v("C13", "R3-late", g.cmd, format!("`{}`: still no bestmove {} ns after the go although only {} ms were available", g.line, out.now - g.read_t, l));
                    a.v("C14", "R3-no-bestmove-after-time-is-up", g.cmd, format!("`{}`: accepted, its {} ms ran out {} ns ago, the search is still running and nothing was announced", g.line, l, out.now - g.read_t - limit_ns));
                    // C07's own clause: a thinking time too short to finish depth 1 still gets a legal move
                    if g.info_times.first().map_or(true, |&t| t > g.read_t.saturating_add(limit_ns)) {
                        a.v("C07", "R1-stopped-answer", g.cmd, format!("`{}`: its {} ms, too short to finish the first iteration, ran out {} ns ago and the engine never answered", g.line, l, out.now - g.read_t - limit_ns));
                    }
                }
            }
        }
        // owed-but-missing answers when the run ended on a budget
        if g.n_best == 0 && matches!(out.verdict, Verdict::StepLimit | Verdict::PollLimit) {
            let slackp = case.params.fair as u64 + 2;
            if let Some(tp) = g.stop_store_tp {
                if total_tp > tp + slackp {
                    a.v("C14", "R3-no-bestmove-after-stop", g.cmd, format!("`{}`: {} search polls after the stop was processed and still no bestmove", g.line, total_tp - tp));
                    a.v("C07", "R2-not-prompt", g.cmd, format!("`{}`: search kept running for {} polls after the stop", g.line, total_tp - tp));
                }
            }
            if let Some(tp) = g.timer_exit_tp {
                if total_tp > tp + slackp {
                    a.v("C14", "R3-lost-stop", g.cmd, format!("`{}`: the timer thread has fired and exited, the search ran {} more polls and never answered", g.line, total_tp - tp));
                    a.v("C13", "R3-late", g.cmd, format!("`{}`: time budget elapsed, search ran {} more polls without answering", g.line, total_tp - tp));
                }
            }
        }
    }

    // C13: low clocks shorten, never extend (cases tagged `mono`: same position, same increment, W1 <= W2)
    if case.has_tag("mono") {
        let timed: Vec<&GoRec> = gos.iter().filter(|g| g.accepted && g.clocks.is_some() && g.sleep_ns.is_some() && g.root.is_some()).collect();
        for w in timed.windows(2) {
            let own = |g: &GoRec| {
                let (wt, bt, wi, bi) = g.clocks.unwrap();
                if g.root.as_ref().unwrap().white_to_move() { (wt, wi) } else { (bt, bi) }
            };
            let (a1, i1) = own(w[0]);
            let (a2, i2) = own(w[1]);
            if i1 == i2 && a1 <= a2 && w[0].sleep_ns.unwrap() > w[1].sleep_ns.unwrap() {
                a.v("C13", "R1-low-clock-extends", w[0].cmd, format!("`{}` is allotted {} ns but the larger clock `{}` only {} ns", w[0].line, w[0].sleep_ns.unwrap(), w[1].line, w[1].sleep_ns.unwrap()));
            }
        }
    }

    // ---- end-of-run rules
    match &out.verdict {
        Verdict::Exit(Ok(())) => {
            if !(quit_read || eof_read) {
                a.v("C14", "R1-panic", cmd_id, "engine main function returned although neither quit nor EOF was read".into());
            }
        }
        Verdict::Exit(Err(e)) => a.v("C14", "R1-panic", cmd_id, format!("engine main function returned the error `{}`", e)),
        Verdict::MainPanicked => a.v("C14", "R1-panic", cmd_id, "engine main thread panicked (process exit status 101)".into()),
        Verdict::Deadlock(d) => {
            // a deadlock counts against the engine only if the engine owes something: the stdin loop is stuck on a
            // lock or a join, or the GUI waits for an answer to a command the engine accepted (or never read).
            // A GUI script that waits for a bestmove it never asked for is an artefact of the script.
            let main_state = out.threads[0].final_state.as_str();
            let gui_state = out.threads.get(1).map(|t| t.final_state.as_str()).unwrap_or("");
            let owed_best = gos.iter().any(|g| g.accepted && g.n_best == 0);
            let engine_fault = if main_state != "stdin" {
                true
            } else if gui_state.starts_with("gui-await-bestmove") {
                owed_best
            } else if gui_state.starts_with("gui-await-readyok") {
                isready_sent > readyok_seen
            } else {
                true
            };
            if engine_fault {
                if let Some(g) = gos.iter().find(|g| g.accepted && g.n_best == 0 && g.stop_read_seq.is_some()) {
                    a.v("C07", "R1-stopped-answer", g.cmd, format!("`{}`: after the stop request ({}) the engine never answered: {}", g.line, g.stop_kind.unwrap_or("stop"), d));
                }
                a.v("C14", "R2-deadlock", cmd_id, format!("no thread can run and no timer is pending: {}", d));
            } else {
                a.inconclusive = true;
            }
        }
        Verdict::StepLimit | Verdict::PollLimit => {
            a.inconclusive = !a.viols.iter().any(|v| v.rule.starts_with("R3") || v.rule.starts_with("R1-runs"));
        }
    }
    if matches!(out.verdict, Verdict::Exit(_)) && !quit_read {
        // every isready that was sent before EOF must have been answered
        if readyok_seen != isready_sent {
            a.v("C14", "R4-isready", 0, format!("{} isready sent, {} readyok written", isready_sent, readyok_seen));
        }
    }
    for g in &gos {
        if g.accepted && g.root.as_ref().map_or(false, |r| r.legal_moves().len() == 1) {
            a.probe("root with a single legal move");
        }
        if g.accepted && g.root.as_ref().map_or(false, |r| r.legal_moves().is_empty()) {
            a.probe("root with no legal move");
        }
        if g.accepted && g.infos.first().map_or(false, |(_, _, p)| *p == 0) && g.root.as_ref().map_or(false, |r| r.legal_moves().len() > 1) {
            a.probe("first iteration answered from the table without a poll");
        }
        if g.accepted && g.n_best > 0 && g.infos.is_empty() {
            a.probe("answered before the first iteration completed");
        }
    }
    a.gos = gos;
    a
}

// ------------------------------------------------------------------ direct-call mode
pub fn analyse_direct(case: &Case, out: &Outcome) -> Analysis {
    let mut a = Analysis::default();
    let mut k: Option<usize> = None;
    let mut g = GoRec::default();
    let mut saw_false_poll: Option<u64> = None;
    let mut polls_at_false_out: Option<u64> = None;
    let mut pre_stopped = false;
    let mut gos = vec![];
    for e in &out.events {
        match &e.k {
            EvK::Note { text } => {
                if let Some(rest) = text.strip_prefix("item ") {
                    let mut it = rest.split_ascii_whitespace();
                    let idx: usize = it.next().and_then(|s| s.parse().ok()).unwrap_or(0);
                    match it.next() {
                        Some("begin") => {
                            k = Some(idx);
                            let item = &case.items[idx];
                            let stop_tok = it.next().and_then(|s| s.strip_prefix("stop=")).unwrap_or("-").to_string();
                            let stop: Option<u64> = stop_tok.parse().ok();
                            pre_stopped = stop_tok == "pre";
                            // the moves actually searched (table-guided items choose them at run time)
                            let run_moves: Option<Vec<String>> = it.next().and_then(|s| s.strip_prefix("moves=")).map(|s| s.split(',').filter(|x| !x.is_empty()).map(|x| x.to_string()).collect());
                            a.cur_k = stop;
                            g = GoRec { cmd: idx as u32, line: format!("item {}: {} moves [{}] depth {:?} stop_at {:?}", idx, item.root, item.moves.join(" "), item.depth, stop), accepted: true, read_t: e.t, read_tp: e.tp, ..Default::default() };
                            g.movetime = stop; // (re-used as the chosen stop index in direct mode)
                            let moves_used: Vec<String> = run_moves.unwrap_or_else(|| item.moves.clone());
                            g.line = format!("item {}: {} moves [{}] depth {:?} stop_at {:?}", idx, item.root, moves_used.join(" "), item.depth, stop);
                            let mut p = crate::gui::root_pos(&item.root);
                            if item.descend.is_some() && idx > 0 {
                                // the root string of a descending item is inherited from the item before it
                                let mut j = idx;
                                while j > 0 && case.items[j].descend.is_some() {
                                    j -= 1;
                                }
                                p = crate::gui::root_pos(&case.items[j].root);
                            }
                            if let Some(pp) = p.as_mut() {
                                for m in &moves_used {
                                    if !pp.play(m) {
                                        p = None;
                                        break;
                                    }
                                }
                            }
                            g.root = p;
                            g.root_known = true;
                            g.depth = item.depth.map(|d| (d as u32).max(1));
                            saw_false_poll = None;
                            polls_at_false_out = None;
                        }
                        Some("end") => {
                            if let Some(idx) = k.take() {
                                let item = &case.items[idx];
                                let end_polls: u64 = text.rsplit('=').next().and_then(|s| s.parse().ok()).unwrap_or(0);
                                a.accepted_gos += 1;
                                if g.n_best == 1 {
                                    a.answered_gos += 1;
                                }
                                let stopped = saw_false_poll.is_some() || pre_stopped;
                                if stopped {
                                    g.stop_kind = Some(if pre_stopped { "stop pending before the search started" } else { "flag flipped at chosen poll" });
                                }
                                if pre_stopped {
                                    // the stop arrived before the search began: at most one iteration (a root answered from the
                                    // table or a single-reply root, neither of which expands a node) may still be reported
                                    if g.infos.len() > 1 {
                                        a.v("C07", "R2-not-prompt", idx as u32, format!("{}: the stop was pending before the search started, yet {} iterations were completed and reported", g.line, g.infos.len()));
                                    }
                                    if end_polls > 1 {
                                        a.v("C07", "R2-not-prompt", idx as u32, format!("{}: the stop was pending before the search started, yet {} nodes were polled", g.line, end_polls));
                                    }
                                    a.stops_observed += 1;
                                    a.distinct_keys.push(format!("{}|{}|{}|pre", idx, item.root, item.moves.len()));
                                }
                                check_answer(&mut a, &g, stopped);
                                check_pvs(&mut a, &g);
                                if let Some(p) = saw_false_poll {
                                    if end_polls > p {
                                        a.v("C07", "R2-not-prompt", idx as u32, format!("{}: {} more node poll(s) after the stop was observed at poll {}", g.line, end_polls - p, p));
                                    }
                                    if polls_at_false_out.is_some() {
                                        a.v("C07", "R2-not-prompt", idx as u32, format!("{}: info line reported after the stop was observed", g.line));
                                    }
                                    if p == 1 {
                                        a.probe("stop observed at the very first poll");
                                    }
                                }
                                if let Some(n) = g.depth {
                                    if let Some(&(_, d, polls_at)) = g.infos.iter().find(|(_, d, _)| *d >= n) {
                                        if end_polls > polls_at {
                                            a.v("C08", "R1-runs-past-depth-limit", idx as u32, format!("{}: after `info depth {}` the search expanded {} more node(s)", g.line, d, end_polls - polls_at));
                                        }
                                    }
                                    check_deeper_than_limit(&mut a, &g, n);
                                }
                                for w in g.infos.windows(2) {
                                    if w[1].1 <= w[0].1 {
                                        a.v("C08", "R3-depth-not-increasing", idx as u32, format!("{}: `info depth {}` followed by `info depth {}`", g.line, w[0].1, w[1].1));
                                        break;
                                    }
                                }
                                if g.movetime.is_some() && !stopped {
                                    a.probe("search ended by itself before the chosen stop instant");
                                }
                                if stopped {
                                    a.stops_observed += 1;
                                    a.distinct_keys.push(format!("{}|{}|{}|{:?}", idx, item.root, item.moves.len(), g.movetime));
                                }
                                let _ = item;
                                if g.infos.first().map_or(false, |(_, _, p)| *p == 0) && g.root.as_ref().map_or(false, |r| r.legal_moves().len() > 1) {
                                    a.probe("first iteration answered from the table without a poll");
                                }
                                if g.n_best > 0 && g.infos.is_empty() {
                                    a.probe("answered before the first iteration completed");
                                }
                                if let Some(r) = &g.root {
                                    match r.legal_moves().len() {
                                        0 => a.probe("root with no legal move"),
                                        1 => a.probe("root with a single legal move"),
                                        _ => {}
                                    }
                                }
                                if let Some(&(_, d, _)) = g.infos.last() {
                                    if d >= 34 {
                                        a.probe("iteration depth >= 34 reached");
                                    }
                                    if d >= 64 {
                                        a.probe("iteration depth >= 64 reached");
                                    }
                                }
                                gos.push(std::mem::take(&mut g));
                                a.cur_k = None;
                            }
                        }
                        _ => {}
                    }
                }
            }
            EvK::Out { line, polls, .. } => {
                if k.is_some() {
                    if let Some(d) = line.strip_prefix("info depth ") {
                        if let Ok(d) = d.trim().parse::<u32>() {
                            g.infos.push((e.seq, d, *polls));
                        }
                        if saw_false_poll.is_some() {
                            polls_at_false_out = Some(*polls);
                        }
                    } else if let Some(pv) = line.strip_prefix("info pv") {
                        g.pvs.push(pv.split_ascii_whitespace().map(|s| s.to_string()).collect());
                    } else if line.starts_with("bestmove") {
                        g.n_best += 1;
                        g.best = line.split_ascii_whitespace().nth(1).map(|s| s.to_string());
                        g.best_t = e.t;
                        g.best_polls = *polls;
                    }
                }
            }
            EvK::SawFalse { poll, .. } => {
                if saw_false_poll.is_none() {
                    saw_false_poll = Some(*poll);
                }
            }
            EvK::LateNode { stores, .. } => {
                if let Some(idx) = k {
                    a.v("C07", "R2-not-prompt", idx as u32, format!("{}: the search went on completing nodes with the stop already delivered ({} nodes since it last looked at its flag)", g.line, stores));
                }
            }
            EvK::Panic { msg, loc } => classify_panic(&mut a, msg, loc, k.unwrap_or(0) as u32, k.is_some()),
            _ => {}
        }
    }
    match &out.verdict {
        Verdict::Exit(Ok(())) => {}
        Verdict::StepLimit | Verdict::PollLimit => {
            // a depth-limited search that reached its depth and keeps polling is owed
            if let (Some(_), Some(n)) = (k, g.depth) {
                if let Some(&(_, d, polls_at)) = g.infos.iter().find(|(_, d, _)| *d >= n) {
                    let th = &out.threads[0];
                    if th.polls > polls_at {
                        a.v("C08", "R1-runs-past-depth-limit", g.cmd, format!("{}: after `info depth {}` the search expanded {} more node(s) and never returned", g.line, d, th.polls - polls_at));
                    }
                }
            }
            a.inconclusive = a.viols.is_empty();
        }
        Verdict::MainPanicked => {
            if !a.viols.iter().any(|v| v.rule == "R1-panic") {
                a.v("C14", "R1-panic", k.unwrap_or(0) as u32, "search panicked".into());
            }
        }
        other => a.v("C14", "R2-deadlock", 0, format!("direct-call run ended with {:?}", other)),
    }
    a.gos = gos;
    a
}

// ------------------------------------------------------------------ self-play mode
pub fn analyse_autoplay(case: &Case, out: &Outcome) -> Analysis {
    let mut a = Analysis::default();
    let mut boards = 0u32;
    let mut last_fen: Option<String> = None;
    let mut last_timer_exit_tp: Option<u64> = None;
    let mut last_board_tp: u64 = 0;
    for e in &out.events {
        match &e.k {
            EvK::Exit { .. } => {
                // only the timer of the move in progress counts: the most recently started timer thread
                let newest = out.threads.iter().rposition(|t| t.role == Role::Timer);
                if Some(e.th) == newest {
                    last_timer_exit_tp = Some(e.tp);
                }
            }
            EvK::Panic { msg, loc } => classify_panic(&mut a, msg, loc, boards, true),
            EvK::Out { line, .. } => {
                for l in line.lines() {
                    if let Some(f) = l.strip_prefix("Fen: ") {
                        boards += 1;
                        last_fen = Some(f.to_string());
                        last_board_tp = e.tp;
                    }
                }
            }
            _ => {}
        }
    }
    a.accepted_gos = boards;
    a.answered_gos = boards.saturating_sub(1);
    if boards >= 399 {
        a.probe("self-play game reached 399 plies");
    }
    match &out.verdict {
        Verdict::Exit(Ok(())) => {
            a.probe("self-play ended by itself");
            // the game ends when the search returns no move: legitimate only in a position without legal moves
            // (or at a length limit the engine may impose on itself)
            if let Some(f) = &last_fen {
                if let Ok(p) = Pos::from_fen(f) {
                    let n = p.legal_moves().len();
                    if n > 0 && boards < 390 {
                        a.v("C07", "R1-stopped-answer", boards, format!("self-play ended after {} plies with `no move` although {} legal moves exist in {}", boards - 1, n, f));
                    } else if n == 0 {
                        a.probe("self-play reached mate or stalemate");
                    }
                }
            }
        }
        Verdict::StepLimit | Verdict::PollLimit => {
            // the move in progress: its timer has fired and exited, yet the search keeps polling
            if let Some(tp) = last_timer_exit_tp {
                let slack = 5 * (case.params.fair as u64 + 1) + 2;
                if tp >= last_board_tp && out.polls > tp + slack {
                    a.v("C13", "R3-late", boards, format!("self-play with {} ms per move: the timer of move {} fired and exited, the search ran {} more polls and the move was never made", case.autoplay_ms, boards, out.polls - tp));
                }
            }
            a.inconclusive = a.viols.is_empty();
        }
        Verdict::MainPanicked => {
            if !a.viols.iter().any(|v| v.rule == "R1-panic") {
                a.v("C14", "R1-panic", boards, "self-play panicked".into());
            }
        }
        _ => {}
    }
    a
}

/// C19: the `info depth/score/nodes/pv` lines and the bestmove of the last accepted `go` of a session
pub fn last_search_transcript(case: &Case, _out: &Outcome, an: &Analysis) -> Option<Vec<String>> {
    let id: u32 = case.tags.iter().find_map(|t| t.strip_prefix("c19go="))?.parse().ok()?;
    let g = an.gos.iter().find(|g| g.accepted && g.cmd == id)?;
    if g.n_best == 0 {
        return None;
    }
    Some(g.outs.clone())
}

pub fn compare_c19(a: &mut Analysis, case: &Case, base: Option<Vec<String>>, got: Option<Vec<String>>) {
    match (base, got) {
        (Some(b), Some(g)) => {
            if b != g {
                let k = b.iter().zip(g.iter()).position(|(x, y)| x != y).unwrap_or(b.len().min(g.len()));
                a.v("C19", "R1-transcript-differs", 0, format!("[{}] line {} of the search transcript: fresh engine printed `{}`, this run printed `{}`", case.family, k + 1, b.get(k).map(|s| s.as_str()).unwrap_or("<nothing>"), g.get(k).map(|s| s.as_str()).unwrap_or("<nothing>")));
            }
        }
        (None, _) => a.inconclusive = true,
        (_, None) => a.inconclusive = true,
    }
}

/// Is this run a non-trivial case for `prop` by the rule stated in the evidence file?
pub fn nontrivial_for(prop: &str, case: &Case, out: &Outcome, an: &Analysis) -> bool {
    let answered_with_info = an.gos.iter().any(|g| g.accepted && g.n_best > 0 && !g.infos.is_empty() && g.root.is_some());
    match prop {
        "C06" => answered_with_info,
        "C18" => an.gos.iter().any(|g| g.root.is_some() && g.pvs.iter().any(|p| !p.is_empty())),
        "C07" => {
            an.stops_observed > 0
                || an.gos.iter().any(|g| g.accepted && g.n_best > 0 && g.search.and_then(|t| out.threads.get(t)).map_or(false, |t| t.saw_false_at.is_some()))
                || (case.mode == Mode::Autoplay && an.accepted_gos > 1)
        }
        "C08" => an.gos.iter().any(|g| {
            g.accepted && match g.depth {
                Some(n) => g.infos.iter().any(|(_, d, _)| *d >= n) && g.n_best > 0,
                None => g.infos.last().map_or(false, |(_, d, _)| *d >= 8),
            }
        }),
        "C13" => an.gos.iter().any(|g| g.accepted && g.sleep_ns.is_some() && g.root.is_some() && (g.movetime.is_some() || g.clocks.is_some())),
        "C19" => case.family != "baseline-again" && out.polls > 0 && !an.inconclusive,
        "C15" => match case.mode {
            Mode::Autoplay => an.accepted_gos >= 64,
            Mode::Direct => an.answered_gos > 0,
            Mode::Session => an.gos.iter().any(|g| g.accepted && g.n_best > 0) && case.steps.iter().any(|s| matches!(&s.k, crate::case::GK::NewGame { pre, .. } if pre.len() >= 64)),
        },
        _ => an.accepted_gos > 0 && out.polls > 0,
    }
}

//! Executes a case under the simulator: the engine's real entry points run as simulator threads.

use crate::case::{Case, Mode};
use crate::verif_shim::sched::{self, Outcome};


pub fn run_case(case: &Case) -> Outcome {
    let mut params = case.params.clone();
    match case.mode {
        Mode::Session => {
            params.search_on_main = false;
            let steps = case.steps.clone();
            let tags = case.tags.clone();
            sched::run(
                params,
                case.plan.clone(),
                || MainRet::into_res(crate::uci::uci_talk()),
                Some(move || crate::gui::run_script(steps, tags)),
            )
        }
        #[cfg(feature = "selfplay")]
        Mode::Autoplay => {
            params.search_on_main = true;
            let ms = case.autoplay_ms;
            sched::run(
                params,
                case.plan.clone(),
                move || {
                    selfplay::call(crate::autoplay::autoplay, ms);
                    Ok(())
                },
                None::<fn()>,
            )
        }
        #[cfg(feature = "direct")]
        Mode::Direct => {
            params.search_on_main = true;
            let items = case.items.clone();
            sched::run(params, case.plan.clone(), move || direct::run_items(items), None::<fn()>)
        }
        #[allow(unreachable_patterns)]
        _ => {
            eprintln!("HARNESS-ERROR: this case needs an entry point of the engine that this build of the simulator does not call (built without the `direct` or `selfplay` feature)");
            std::process::exit(2);
        }
    }
}

/// what the front end's main function returns, read as "did it end in an error"
trait MainRet {
    fn into_res(self) -> Result<(), String>;
}
impl MainRet for () {
    fn into_res(self) -> Result<(), String> {
        Ok(())
    }
}
impl<T, E: std::fmt::Display> MainRet for Result<T, E> {
    fn into_res(self) -> Result<(), String> {
        self.map(|_| ()).map_err(|e| format!("{:#}", e))
    }
}

/// `autoplay(ms)` with whatever integer type the parameter has, and with further parameters at their defaults
#[cfg(feature = "selfplay")]
mod selfplay {
    pub trait Entry<M> {
        fn go(&self, ms: u64);
    }
    impl<F: Fn(T), T: TryFrom<u64>> Entry<(T,)> for F {
        fn go(&self, ms: u64) {
            if let Ok(v) = T::try_from(ms) {
                self(v)
            }
        }
    }
    impl<F: Fn(T, X), T: TryFrom<u64>, X: Default> Entry<(T, X)> for F {
        fn go(&self, ms: u64) {
            if let Ok(v) = T::try_from(ms) {
                self(v, X::default())
            }
        }
    }
    pub fn call<M, F: Entry<M>>(f: F, ms: u64) {
        f.go(ms)
    }
}

#[cfg(feature = "direct")]
mod direct {
use crate::case::DItem;
use crate::chess::{move_struct::Move, Game};
use crate::search::TranspositionTable;
use crate::verif_shim::sched;
use crate::verif_shim::sync::AtomicBool;
use arrayvec::ArrayVec;
use nohash_hasher::BuildNoHashHasher;

/// The search entry point as the harness calls it, whatever the engine's current spelling of it is: the game by
/// reference, by mutable reference or by value, and further parameters (at their `Default`) after the four known ones.
/// what the entry point returns, read as "the move to announce, if any"
pub trait Answer {
    fn mv(self) -> Option<Move>;
}
impl Answer for Option<Move> {
    fn mv(self) -> Option<Move> {
        self
    }
}
impl<E> Answer for Result<Move, E> {
    fn mv(self) -> Option<Move> {
        self.ok()
    }
}
impl<E> Answer for Result<Option<Move>, E> {
    fn mv(self) -> Option<Move> {
        self.ok().flatten()
    }
}
impl<X> Answer for (Option<Move>, X) {
    fn mv(self) -> Option<Move> {
        self.0
    }
}
pub trait SearchEntry<M> {
    fn search(&self, game: &Game, table: &mut TranspositionTable, flag: &AtomicBool, depth: Option<u8>) -> Option<Move>;
}
impl<R: Answer, F: Fn(&Game, &mut TranspositionTable, &AtomicBool, Option<u8>) -> R> SearchEntry<(u8, R)> for F {
    fn search(&self, game: &Game, table: &mut TranspositionTable, flag: &AtomicBool, depth: Option<u8>) -> Option<Move> {
        self(game, table, flag, depth).mv()
    }
}
impl<R: Answer, F: Fn(&mut Game, &mut TranspositionTable, &AtomicBool, Option<u8>) -> R> SearchEntry<(u16, R)> for F {
    fn search(&self, game: &Game, table: &mut TranspositionTable, flag: &AtomicBool, depth: Option<u8>) -> Option<Move> {
        self(&mut game.clone(), table, flag, depth).mv()
    }
}
impl<R: Answer, F: Fn(Game, &mut TranspositionTable, &AtomicBool, Option<u8>) -> R> SearchEntry<(u32, R)> for F {
    fn search(&self, game: &Game, table: &mut TranspositionTable, flag: &AtomicBool, depth: Option<u8>) -> Option<Move> {
        self(game.clone(), table, flag, depth).mv()
    }
}
impl<R: Answer, X: Default, F: Fn(&Game, &mut TranspositionTable, &AtomicBool, Option<u8>, X) -> R> SearchEntry<(u8, X, R)> for F {
    fn search(&self, game: &Game, table: &mut TranspositionTable, flag: &AtomicBool, depth: Option<u8>) -> Option<Move> {
        self(game, table, flag, depth, X::default()).mv()
    }
}
impl<R: Answer, X: Default, F: Fn(&mut Game, &mut TranspositionTable, &AtomicBool, Option<u8>, X) -> R> SearchEntry<(u16, X, R)> for F {
    fn search(&self, game: &Game, table: &mut TranspositionTable, flag: &AtomicBool, depth: Option<u8>) -> Option<Move> {
        self(&mut game.clone(), table, flag, depth, X::default()).mv()
    }
}
fn call_search<M, F: SearchEntry<M>>(f: F, game: &Game, table: &mut TranspositionTable, flag: &AtomicBool, depth: Option<u8>) -> Option<Move> {
    f.search(game, table, flag, depth)
}

/// Builds the engine's game exactly as `command_position` does.
pub fn build_game(root: &str, moves: &[String]) -> Result<Game, String> {
    let mut game = if root == "startpos" {
        Game::default()
    } else {
        Game::new(root.strip_prefix("fen ").unwrap_or(root)).map_err(|e| format!("engine rejects root '{}': {:#}", root, e))?
    };
    for m in moves {
        let Some(mv) = Move::from_uci_notation(m, &game) else {
            return Err(format!("engine cannot read move {}", m));
        };
        let mut list = ArrayVec::new();
        game.get_moves(&mut list, true);
        if list.iter().any(|&a| a == mv) {
            game.push_history(mv);
        } else {
            return Err(format!("engine refuses move {}", m));
        }
    }
    Ok(game)
}

/// Direct-call mode: one table shared by a sequence of searches called straight through
/// `search::get_best_move_until_stop` (the same function `uci.rs` and `autoplay.rs` call).
pub fn run_items(items: Vec<DItem>) -> Result<(), String> {
    let mut table: TranspositionTable = TranspositionTable::with_capacity_and_hasher(1024, BuildNoHashHasher::default());
    let mut prev: (String, Vec<String>) = (String::new(), vec![]);
    for (k, it) in items.iter().enumerate() {
        if it.fresh {
            table.clear();
        }
        let mut it = it.clone();
        if let Some(d) = &it.descend {
            if !prev.0.is_empty() {
                it.root = prev.0.clone();
                it.moves = descend(&prev.0, &prev.1, d.plies, d.pick, &table);
            }
        }
        prev = (it.root.clone(), it.moves.clone());
        let it = &it;
        if let Some(w) = &it.walks {
            // many shallow searches of different positions on one table (birthday stress on the table's keying)
            let Some(mut base) = crate::gui::root_pos(&it.root) else { continue };
            if !it.moves.iter().all(|m| base.play(m)) {
                continue;
            }
            let mut seed = w.seed;
            for _ in 0..w.n {
                let len = 1 + sched::splitmix(&mut seed) % w.max_len.max(1) as u64;
                let mut p = base.clone();
                let mut line = it.moves.clone();
                for _ in 0..len {
                    let l = p.legal_moves();
                    if l.is_empty() {
                        break;
                    }
                    let m = l[(sched::splitmix(&mut seed) % l.len() as u64) as usize].clone();
                    p.play(&m);
                    line.push(m);
                }
                if let Ok(g) = build_game(&it.root, &line) {
                    one_search(k, &g, &mut table, it.depth, None, &line);
                }
            }
            continue;
        }
        let game = match build_game(&it.root, &it.moves) {
            Ok(g) => g,
            Err(e) => {
                sched::note(format!("item {} skipped: {}", k, e));
                continue;
            }
        };
        if let Some(sw) = &it.sweep {
            // reference run: how many polls does the unstopped search make, and where are its iteration boundaries
            let mut t = table.clone();
            let (p, bounds) = one_search(k, &game, &mut t, it.depth, None, &it.moves);
            let mut ks: Vec<u64> = vec![];
            if p <= sw.all_upto {
                ks.extend(0..=p);
            } else {
                ks.extend(0..=sw.head.min(p));
                for b in bounds {
                    for d in [b.saturating_sub(1), b, b + 1] {
                        if d <= p {
                            ks.push(d);
                        }
                    }
                }
                let mut s = sw.seed;
                for _ in 0..sw.samples {
                    ks.push(sched::splitmix(&mut s) % (p + 1));
                }
                ks.push(p);
                ks.sort();
                ks.dedup();
            }
            for kk in ks {
                let mut t = table.clone();
                one_search(k, &game, &mut t, it.depth, Some(kk), &it.moves);
            }
            // and once with the stop already pending when the search is started
            let mut t = table.clone();
            one_search_ex(k, &game, &mut t, it.depth, None, &it.moves, true);
        } else if it.pre_stopped {
            let mut t = table.clone();
            one_search_ex(k, &game, &mut t, it.depth, None, &it.moves, true);
        } else if it.isolated {
            let mut t = table.clone();
            one_search(k, &game, &mut t, it.depth, it.stop_at, &it.moves);
        } else {
            one_search(k, &game, &mut table, it.depth, it.stop_at, &it.moves);
        }
    }
    Ok(())
}

/// returns (polls made, poll counts at which `info depth` lines were printed)
fn one_search(k: usize, game: &Game, table: &mut TranspositionTable, depth: Option<u8>, stop_at: Option<u64>, moves: &[String]) -> (u64, Vec<u64>) {
    one_search_ex(k, game, table, depth, stop_at, moves, false)
}

fn one_search_ex(k: usize, game: &Game, table: &mut TranspositionTable, depth: Option<u8>, stop_at: Option<u64>, moves: &[String], pre_stopped: bool) -> (u64, Vec<u64>) {
    match stop_at {
        Some(s) => sched::note(format!("item {} begin stop={} moves={}", k, s, moves.join(","))),
        None if pre_stopped => sched::note(format!("item {} begin stop=pre moves={}", k, moves.join(","))),
        None => sched::note(format!("item {} begin stop=- moves={}", k, moves.join(","))),
    }
    sched::item_begin(stop_at);
    let flag = AtomicBool::new(!pre_stopped);
    let best = call_search(crate::search::get_best_move_until_stop, game, table, &flag, depth);
    match best {
        Some(m) => println!("bestmove {}", m.uci_notation()),
        None => println!("bestmove none"),
    }
    let (_, polls) = sched::stats_now();
    sched::note(format!("item {} end polls={}", k, polls));
    (polls, sched::item_info_marks())
}

/// Table-guided descent: among the positions reachable from (root, moves) by 1..=plies legal moves (legal by the
/// reference model), those whose engine hash is a key of the table; one of them chosen by `pick`. Falls back to a
/// seeded one-ply extension when the table holds none of them.
fn descend(root: &str, moves: &[String], plies: u8, pick: u64, table: &TranspositionTable) -> Vec<String> {
    let Some(mut pos) = crate::gui::root_pos(root) else { return moves.to_vec() };
    for m in moves {
        if !pos.play(m) {
            return moves.to_vec();
        }
    }
    let mut frontier: Vec<(crate::model::Pos, Vec<String>)> = vec![(pos.clone(), moves.to_vec())];
    let mut present: Vec<Vec<String>> = vec![];
    let mut seed = pick;
    for ply in 0..plies {
        let mut next = vec![];
        for (p, line) in &frontier {
            for m in p.legal_moves() {
                let mut q = p.clone();
                q.play(&m);
                let mut l2 = line.clone();
                l2.push(m);
                if let Ok(g) = build_game(root, &l2) {
                    if table.contains_key(&g.hash()) {
                        present.push(l2.clone());
                    }
                }
                next.push((q, l2));
            }
        }
        // keep the enumeration bounded: at most 40 lines are extended further
        while next.len() > 40 {
            let i = (sched::splitmix(&mut seed) % next.len() as u64) as usize;
            next.swap_remove(i);
        }
        frontier = next;
        let _ = ply;
    }
    if !present.is_empty() {
        let i = (sched::splitmix(&mut seed) % present.len() as u64) as usize;
        return present.swap_remove(i);
    }
    let l = pos.legal_moves();
    let mut out = moves.to_vec();
    if !l.is_empty() {
        out.push(l[(sched::splitmix(&mut seed) % l.len() as u64) as usize].clone());
    }
    out
}
}

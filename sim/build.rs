// Generates the module declarations that mount the repository's own source files
// ($VERIF_REPO, default /repo) as modules of this crate.
use std::{env, fs, path::PathBuf};
fn main() {
    let repo = env::var("VERIF_REPO").unwrap_or_else(|_| "/repo".into());
    println!("cargo:rerun-if-env-changed=VERIF_REPO");
    println!("cargo:rerun-if-changed={}/src", repo);
    println!("cargo:rerun-if-changed={}/zobrist_bytes.bin", repo);
    println!("cargo:rustc-env=VERIF_REPO_BUILT={}", repo);
    println!("cargo:rustc-check-cfg=cfg(daniel729_chess_verif)");
    let out = PathBuf::from(env::var("OUT_DIR").unwrap()).join("mount.rs");
    let mut s = String::new();
    // every `mod x;` of the engine's main.rs except the ones that only make sense in its own binary; a module an edit
    // adds is mounted as well
    let main_rs = fs::read_to_string(format!("{}/src/main.rs", repo)).unwrap_or_default();
    let mut mods: Vec<String> = vec![];
    for line in main_rs.lines() {
        let l = line.trim();
        let l = l.strip_prefix("pub ").unwrap_or(l);
        if let Some(rest) = l.strip_prefix("mod ") {
            if let Some(name) = rest.strip_suffix(';') {
                let name = name.trim().to_string();
                if !["verif_shim", "benchmark", "performance_test"].contains(&name.as_str()) && !mods.contains(&name) {
                    mods.push(name);
                }
            }
        }
    }
    for m in ["chess", "constants", "search", "uci", "autoplay"] {
        if !mods.iter().any(|x| x == m) {
            mods.push(m.to_string());
        }
    }
    for m in mods {
        let f = if PathBuf::from(format!("{}/src/{}.rs", repo, m)).exists() { format!("{}.rs", m) } else { format!("{}/mod.rs", m) };
        s.push_str(&format!("#[path = \"{}/src/{}\"]\npub mod {};\n", repo, f, m));
    }
    fs::write(out, s).unwrap();
}

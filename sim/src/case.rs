//! A *case* is one fully specified simulation: mode, parameters, workload and plan. A case with a
//! `Gen` plan is what a seed expands to; a case with a `Scripted` plan is what a replay file holds.
//! Running a case is a pure function of the case and the sources under test.

use crate::verif_shim::sched::{Decision, Params, Plan, Policy, Pt};
use serde_json::{json, Value};

#[derive(Clone, Debug, PartialEq)]
pub enum GK {
    /// send this line verbatim
    Raw(String),
    /// (no I/O) start a new game record in the GUI: root is `startpos` or `fen <fen>`
    NewGame { root: String, pre: Vec<String> },
    /// send `position <root> [moves ...]` for the GUI's current game record
    PosCur,
    /// (no I/O) play the engine's last bestmove (if `best` and it is legal) and then the given replies
    /// (reply r = r-th legal move modulo the number of legal moves) on the GUI's game record
    Advance { best: bool, replies: Vec<u32> },
    /// (no I/O) take back n plies of the GUI's game record
    Retreat(u32),
    /// (no I/O) repetition shuffle: with m the last move of the record (leading to position Q) and b the engine's last
    /// bestmove (its answer at Q), append b, m reversed, b reversed, m - the record is back at Q with the same move
    /// five plies back, which is what the engine's repetition filter looks for. No-op when the moves are not reversible.
    RepeatAfterBest,
    /// send `go wtime .. btime .. winc .. binc ..` with (own, own_inc) given to the side to move of the
    /// GUI's current game record and (opp, opp_inc) to the other side
    GoClock { own: u64, own_inc: u64, opp: u64, opp_inc: u64 },
    /// the same with a depth limit as well
    GoClockDepth { own: u64, own_inc: u64, opp: u64, opp_inc: u64, depth: u32 },
    AwaitBest,
    AwaitReady,
    /// let simulated time pass (ns)
    Delay(u64),
    /// wait until the engine made this many more search polls (or answered / went idle)
    AfterPolls(u64),
    /// close stdin (EOF)
    Close,
}

#[derive(Clone, Debug, PartialEq)]
pub struct GStep {
    pub id: u32,
    pub k: GK,
}

#[derive(Clone, Debug, PartialEq)]
pub struct DItem {
    /// `startpos` or a FEN
    pub root: String,
    pub moves: Vec<String>,
    pub depth: Option<u8>,
    /// the k-th node-entry poll (0-based) of this search observes the stop
    pub stop_at: Option<u64>,
    /// the stop is already pending when the search starts (the flag is created lowered)
    pub pre_stopped: bool,
    /// start this item with an empty table
    pub fresh: bool,
    /// search a copy of the table and throw the copy away afterwards
    pub isolated: bool,
    /// enumerate the stop instant: run the search once unstopped on a copy of the table (P polls), then once per
    /// chosen stop index k, each on a fresh copy. k ranges over all of 0..=P when P <= all_upto, otherwise over
    /// 0..=head, the polls around each `info depth` line, and `samples` seeded values.
    pub sweep: Option<Sweep>,
    /// table-guided descent: the position of this item is the previous item's position extended by up to `plies`
    /// legal moves, chosen (by `pick`) among the extensions whose hash the shared table currently holds - i.e.
    /// among the interior nodes earlier searches stored entries for. `moves` is ignored.
    pub descend: Option<Descend>,
    /// many-roots meta item: expands at run time into `n` searches of positions reached by seeded random legal walks
    /// (1..=max_len plies, reference model) from this item's position, all on the shared table
    pub walks: Option<Walks>,
}

#[derive(Clone, Debug, PartialEq)]
pub struct Walks {
    pub n: u32,
    pub max_len: u8,
    pub seed: u64,
}

#[derive(Clone, Debug, PartialEq)]
pub struct Descend {
    pub plies: u8,
    pub pick: u64,
}

#[derive(Clone, Debug, PartialEq)]
pub struct Sweep {
    pub all_upto: u64,
    pub head: u64,
    pub samples: u64,
    pub seed: u64,
}

#[derive(Clone, Debug, PartialEq)]
pub enum Mode {
    Session,
    Direct,
    Autoplay,
}

#[derive(Clone, Debug)]
pub struct Case {
    pub prop: String,
    pub family: String,
    pub seed: u64,
    pub mode: Mode,
    pub params: Params,
    pub plan: Plan,
    pub steps: Vec<GStep>,
    pub items: Vec<DItem>,
    pub autoplay_ms: u64,
    /// free-form workload facts the oracle needs (e.g. the time regime of a C13 case)
    pub tags: Vec<String>,
}

impl Case {
    pub fn new(prop: &str, family: &str, seed: u64, mode: Mode) -> Case {
        Case {
            prop: prop.into(),
            family: family.into(),
            seed,
            mode,
            params: Params::default(),
            plan: Plan::Gen { seed },
            steps: vec![],
            items: vec![],
            autoplay_ms: 0,
            tags: vec![],
        }
    }
    pub fn has_tag(&self, t: &str) -> bool {
        self.tags.iter().any(|x| x == t)
    }
    pub fn push(&mut self, k: GK) {
        let id = self.steps.len() as u32 + 1;
        self.steps.push(GStep { id, k });
    }
    pub fn raw(&mut self, s: impl Into<String>) {
        self.push(GK::Raw(s.into()));
    }

    /// hash of the workload (not of the plan): identifies the script
    pub fn workload_hash(&self) -> u64 {
        let mut h = 0xcbf29ce484222325u64;
        let mut feed = |s: &str| {
            for b in s.bytes() {
                h ^= b as u64;
                h = h.wrapping_mul(0x100000001b3);
            }
        };
        feed(&format!("{:?}|{}", self.mode, self.autoplay_ms));
        for s in &self.steps {
            feed(&format!("{:?}", s.k));
        }
        for i in &self.items {
            feed(&format!("{:?}", i));
        }
        h
    }

    pub fn to_json(&self) -> Value {
        let steps: Vec<Value> = self
            .steps
            .iter()
            .map(|s| {
                let (k, v) = match &s.k {
                    GK::Raw(l) => ("send", json!(l)),
                    GK::NewGame { root, pre } => ("newgame", json!({"root": root, "pre": pre})),
                    GK::PosCur => ("position-current", Value::Null),
                    GK::Advance { best, replies } => ("advance", json!({"best": best, "replies": replies})),
                    GK::Retreat(n) => ("retreat", json!(n)),
                    GK::RepeatAfterBest => ("repeat-after-bestmove", Value::Null),
                    GK::GoClock { own, own_inc, opp, opp_inc } => ("go-clock", json!({"own": own, "own_inc": own_inc, "opp": opp, "opp_inc": opp_inc})),
                    GK::GoClockDepth { own, own_inc, opp, opp_inc, depth } => ("go-clock-depth", json!({"own": own, "own_inc": own_inc, "opp": opp, "opp_inc": opp_inc, "depth": depth})),
                    GK::AwaitBest => ("await-bestmove", Value::Null),
                    GK::AwaitReady => ("await-readyok", Value::Null),
                    GK::Delay(ns) => ("delay-ns", json!(ns)),
                    GK::AfterPolls(n) => ("after-polls", json!(n)),
                    GK::Close => ("close-stdin", Value::Null),
                };
                json!({"id": s.id, "op": k, "arg": v})
            })
            .collect();
        let items: Vec<Value> = self
            .items
            .iter()
            .map(|i| json!({"root": i.root, "moves": i.moves, "depth": i.depth, "stop_at": i.stop_at, "pre_stopped": i.pre_stopped, "fresh": i.fresh, "isolated": i.isolated,
                "sweep": i.sweep.as_ref().map(|w| json!({"all_upto": w.all_upto, "head": w.head, "samples": w.samples, "seed": w.seed})),
                "descend": i.descend.as_ref().map(|d| json!({"plies": d.plies, "pick": d.pick})),
                "walks": i.walks.as_ref().map(|w| json!({"n": w.n, "max_len": w.max_len, "seed": w.seed}))}))
            .collect();
        let policy = match &self.params.policy {
            Policy::Np => json!({"kind": "np"}),
            Policy::Rw(p) => json!({"kind": "rw", "permille": p}),
            Policy::Pct(d) => json!({"kind": "pct", "d": d}),
            Policy::RolePrio(p) => json!({"kind": "roleprio", "prio": p.to_vec()}),
        };
        let plan = match &self.plan {
            Plan::Gen { seed } => json!({"kind": "seeded", "seed": seed}),
            Plan::Scripted { decisions, oversleeps } => json!({
                "kind": "scripted",
                "decisions": decisions.iter().map(|d| json!({"thread": d.th, "point": d.pt.name(), "occurrence": d.occ, "run": d.to})).collect::<Vec<_>>(),
                "oversleeps": oversleeps.iter().map(|(n, o)| json!({"thread": n, "ns": o})).collect::<Vec<_>>(),
            }),
        };
        json!({
            "property": self.prop,
            "family": self.family,
            "seed": self.seed,
            "mode": match self.mode { Mode::Session => "session", Mode::Direct => "direct", Mode::Autoplay => "autoplay" },
            "params": {
                "policy": policy,
                "fair": self.params.fair,
                "node_cost_ns": self.params.node_cost,
                "oversleep_max_ns": self.params.oversleep_max,
                "tt_cap": self.params.tt_cap,
                "max_steps": self.params.max_steps,
                "max_polls": self.params.max_polls,
                "search_on_main": self.params.search_on_main,
            },
            "plan": plan,
            "steps": steps,
            "items": items,
            "autoplay_ms": self.autoplay_ms,
            "tags": self.tags,
        })
    }

    pub fn from_json(v: &Value) -> Result<Case, String> {
        let s = |v: &Value, k: &str| -> Result<String, String> { v[k].as_str().map(|x| x.to_string()).ok_or(format!("missing string '{}'", k)) };
        let u = |v: &Value, k: &str| -> Result<u64, String> { v[k].as_u64().ok_or(format!("missing integer '{}'", k)) };
        let mode = match s(v, "mode")?.as_str() {
            "session" => Mode::Session,
            "direct" => Mode::Direct,
            "autoplay" => Mode::Autoplay,
            m => return Err(format!("unknown mode {}", m)),
        };
        let p = &v["params"];
        let pol = &p["policy"];
        let policy = match s(pol, "kind")?.as_str() {
            "np" => Policy::Np,
            "rw" => Policy::Rw(u(pol, "permille")? as u32),
            "pct" => Policy::Pct(u(pol, "d")? as u8),
            "roleprio" => {
                let a = pol["prio"].as_array().ok_or("prio")?;
                let mut pr = [0u8; 5];
                for (i, x) in a.iter().enumerate().take(5) {
                    pr[i] = x.as_u64().unwrap_or(0) as u8;
                }
                Policy::RolePrio(pr)
            }
            k => return Err(format!("unknown policy {}", k)),
        };
        let params = Params {
            policy,
            fair: u(p, "fair")? as u32,
            node_cost: u(p, "node_cost_ns")?,
            oversleep_max: u(p, "oversleep_max_ns")?,
            tt_cap: u(p, "tt_cap")? as usize,
            max_steps: u(p, "max_steps")?,
            max_polls: u(p, "max_polls")?,
            search_on_main: p["search_on_main"].as_bool().unwrap_or(false),
            record_opps: false,
        };
        let pl = &v["plan"];
        let plan = match s(pl, "kind")?.as_str() {
            "seeded" => Plan::Gen { seed: u(pl, "seed")? },
            "scripted" => {
                let mut decisions = vec![];
                for d in pl["decisions"].as_array().ok_or("decisions")? {
                    decisions.push(Decision {
                        th: s(d, "thread")?,
                        pt: Pt::from_name(&s(d, "point")?).ok_or("unknown point")?,
                        occ: u(d, "occurrence")?,
                        to: s(d, "run")?,
                    });
                }
                let mut oversleeps = vec![];
                for o in pl["oversleeps"].as_array().ok_or("oversleeps")? {
                    oversleeps.push((s(o, "thread")?, u(o, "ns")?));
                }
                Plan::Scripted { decisions, oversleeps }
            }
            k => return Err(format!("unknown plan {}", k)),
        };
        let mut steps = vec![];
        for st in v["steps"].as_array().ok_or("steps")? {
            let a = &st["arg"];
            let k = match s(st, "op")?.as_str() {
                "send" => GK::Raw(a.as_str().ok_or("send arg")?.to_string()),
                "newgame" => GK::NewGame {
                    root: s(a, "root")?,
                    pre: a["pre"].as_array().ok_or("pre")?.iter().filter_map(|x| x.as_str().map(|y| y.to_string())).collect(),
                },
                "position-current" => GK::PosCur,
                "advance" => GK::Advance {
                    best: a["best"].as_bool().unwrap_or(false),
                    replies: a["replies"].as_array().ok_or("replies")?.iter().filter_map(|x| x.as_u64().map(|y| y as u32)).collect(),
                },
                "retreat" => GK::Retreat(a.as_u64().ok_or("retreat")? as u32),
                "repeat-after-bestmove" => GK::RepeatAfterBest,
                "go-clock-depth" => GK::GoClockDepth { own: u(a, "own")?, own_inc: u(a, "own_inc")?, opp: u(a, "opp")?, opp_inc: u(a, "opp_inc")?, depth: u(a, "depth")? as u32 },
                "go-clock" => GK::GoClock { own: u(a, "own")?, own_inc: u(a, "own_inc")?, opp: u(a, "opp")?, opp_inc: u(a, "opp_inc")? },
                "await-bestmove" => GK::AwaitBest,
                "await-readyok" => GK::AwaitReady,
                "delay-ns" => GK::Delay(a.as_u64().ok_or("delay")?),
                "after-polls" => GK::AfterPolls(a.as_u64().ok_or("after-polls")?),
                "close-stdin" => GK::Close,
                o => return Err(format!("unknown op {}", o)),
            };
            steps.push(GStep { id: u(st, "id")? as u32, k });
        }
        let mut items = vec![];
        for it in v["items"].as_array().ok_or("items")? {
            items.push(DItem {
                root: s(it, "root")?,
                moves: it["moves"].as_array().ok_or("moves")?.iter().filter_map(|x| x.as_str().map(|y| y.to_string())).collect(),
                depth: it["depth"].as_u64().map(|d| d as u8),
                stop_at: it["stop_at"].as_u64(),
                pre_stopped: it["pre_stopped"].as_bool().unwrap_or(false),
                fresh: it["fresh"].as_bool().unwrap_or(false),
                isolated: it["isolated"].as_bool().unwrap_or(false),
                sweep: if it["sweep"].is_object() {
                    let w = &it["sweep"];
                    Some(Sweep { all_upto: u(w, "all_upto")?, head: u(w, "head")?, samples: u(w, "samples")?, seed: u(w, "seed")? })
                } else {
                    None
                },
                descend: if it["descend"].is_object() { Some(Descend { plies: u(&it["descend"], "plies")? as u8, pick: u(&it["descend"], "pick")? }) } else { None },
                walks: if it["walks"].is_object() { Some(Walks { n: u(&it["walks"], "n")? as u32, max_len: u(&it["walks"], "max_len")? as u8, seed: u(&it["walks"], "seed")? }) } else { None },
            });
        }
        Ok(Case {
            prop: s(v, "property")?,
            family: s(v, "family").unwrap_or_default(),
            seed: u(v, "seed").unwrap_or(0),
            mode,
            params,
            plan,
            steps,
            items,
            autoplay_ms: u(v, "autoplay_ms").unwrap_or(0),
            tags: v["tags"].as_array().map(|a| a.iter().filter_map(|x| x.as_str().map(|y| y.to_string())).collect()).unwrap_or_default(),
        })
    }
}

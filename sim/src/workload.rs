//! Seeded workload generators: one integer -> one case (scenario, parameters, policy, fault plan).

use crate::case::{Case, DItem, Mode, GK};
use crate::corpus::{Root, ROOTS, SIBLINGS};
use crate::model::Pos;
use crate::verif_shim::sched::{splitmix, Policy};

pub struct Rng(pub u64);
impl Rng {
    pub fn new(seed: u64, salt: u64) -> Rng {
        let mut s = seed ^ salt.wrapping_mul(0x9E3779B97F4A7C15);
        splitmix(&mut s);
        Rng(s)
    }
    pub fn next(&mut self) -> u64 {
        splitmix(&mut self.0)
    }
    pub fn below(&mut self, n: u64) -> u64 {
        if n == 0 {
            0
        } else {
            self.next() % n
        }
    }
    pub fn range(&mut self, lo: u64, hi: u64) -> u64 {
        lo + self.below(hi - lo + 1)
    }
    pub fn chance(&mut self, num: u64, den: u64) -> bool {
        self.below(den) < num
    }
    pub fn pick<'a, T>(&mut self, v: &'a [T]) -> &'a T {
        &v[self.below(v.len() as u64) as usize]
    }
    /// log-uniform in [lo, hi]
    pub fn log_uniform(&mut self, lo: u64, hi: u64) -> u64 {
        let l = (lo.max(1) as f64).ln();
        let h = (hi.max(1) as f64).ln();
        let u = (self.next() >> 11) as f64 / (1u64 << 53) as f64;
        ((l + u * (h - l)).exp() as u64).clamp(lo, hi)
    }
}

pub fn root_cmd(r: &Root) -> String {
    if r.fen == "startpos" {
        "startpos".into()
    } else {
        format!("fen {}", r.fen)
    }
}

/// random legal walk of up to n plies on the model; returns the moves
pub fn walk(rng: &mut Rng, root: &str, n: u64) -> Vec<String> {
    let mut out = vec![];
    let Some(mut p) = crate::gui::root_pos(root) else { return out };
    for _ in 0..n {
        let l = p.legal_moves();
        if l.is_empty() {
            break;
        }
        let m = rng.pick(&l).clone();
        p.play(&m);
        out.push(m);
    }
    out
}

fn piece_class(p: &Pos) -> u8 {
    match p.piece_count() {
        0..=5 => 0,
        6..=12 => 1,
        _ => 2,
    }
}

fn max_depth_for(class: u8) -> u64 {
    match class {
        0 => 6,
        1 => 4,
        _ => 3,
    }
}

pub fn swarm_params(rng: &mut Rng, case: &mut Case) {
    let p = &mut case.params;
    p.policy = match rng.below(100) {
        0..=19 => Policy::Np,
        20..=34 => Policy::Rw(5),
        35..=54 => Policy::Rw(50),
        55..=74 => Policy::Rw(300),
        _ => Policy::Pct(rng.range(1, 3) as u8),
    };
    p.fair = *rng.pick(&[2u32, 8, 64, 400]);
    p.node_cost = *rng.pick(&[10_000u64, 100_000, 1_000_000]);
    p.oversleep_max = *rng.pick(&[0u64, 0, 1_000_000, 4_000_000]);
    p.tt_cap = *rng.pick(&[0usize, 16, 1024, 65_536]);
}

/// movetime (ms) that gives the search about `polls` node polls at the case's node cost
fn movetime_for(case: &Case, polls: u64) -> u64 {
    5 + (polls * case.params.node_cost + 999_999) / 1_000_000
}

/// emits one `go` of a random kind together with the GUI behaviour around it
fn emit_go(rng: &mut Rng, case: &mut Case, class: u8, allow_infinite: bool) {
    let dmax = max_depth_for(class);
    let kind = rng.below(100);
    let ping = rng.chance(1, 4);
    if kind < 35 {
        // depth-limited, awaited
        let d = rng.range(1, dmax);
        case.raw(format!("go depth {}", d));
        if ping {
            case.raw("isready");
            if rng.chance(1, 2) {
                case.push(GK::AwaitReady);
            }
        }
        if rng.chance(1, 5) {
            case.raw("wait");
        }
        case.push(GK::AwaitBest);
        if rng.chance(1, 8) {
            case.raw("stop"); // stop after the natural end
        }
    } else if kind < 55 {
        // fixed move time
        let polls = if rng.chance(1, 4) { rng.below(4) } else { rng.log_uniform(1, 6_000) };
        let mt = if rng.chance(1, 6) { rng.below(7) } else { movetime_for(case, polls) };
        case.raw(format!("go movetime {}", mt));
        if ping {
            case.raw("isready");
        }
        case.push(GK::AwaitBest);
    } else if kind < 70 {
        // clocks: budget = 2% of own clock + inc - 150 - 5
        let polls = rng.log_uniform(1, 6_000);
        let want = movetime_for(case, polls) - 5;
        let own = rng.log_uniform(1_000, 600_000u64.min(50 * (want + 155)));
        let base = own / 50;
        let inc = (want + 155).saturating_sub(base);
        let opp = rng.log_uniform(1, 3_600_000);
        let opp_inc = if rng.chance(1, 2) { 0 } else { rng.log_uniform(1, 30_000) };
        case.push(GK::GoClock { own, own_inc: inc, opp, opp_inc });
        if ping {
            case.raw("isready");
        }
        case.push(GK::AwaitBest);
    } else if kind < 90 && allow_infinite {
        // unlimited, stopped by the GUI
        case.raw("go infinite");
        match rng.below(4) {
            0 => {} // go immediately followed by stop
            1 => case.push(GK::AfterPolls(rng.below(4))),
            2 => case.push(GK::AfterPolls(rng.log_uniform(1, 5_000))),
            _ => case.push(GK::Delay(rng.log_uniform(1_000, 50_000_000))),
        }
        if ping {
            case.raw("isready");
            if rng.chance(1, 2) {
                case.push(GK::AwaitReady);
            }
        }
        if rng.chance(1, 10) {
            case.raw("ucinewgame");
        } else {
            case.raw("stop");
        }
        case.push(GK::AwaitBest);
    } else {
        // burst: go + stop back to back, or a second go while the first is running
        let d = rng.range(1, dmax);
        case.raw(format!("go depth {}", d));
        if rng.chance(1, 2) {
            case.raw("stop");
        } else {
            case.push(GK::PosCur);
            case.raw("go depth 1");
            case.raw("stop");
        }
        case.push(GK::AwaitBest);
    }
}

/// C14 / C06 / C18 session generator. `profile`: 0 = command mix (C14), 1 = table histories (C06/C18)
pub fn gen_session(prop: &str, seed: u64, profile: u8, faults: bool) -> Case {
    let mut rng = Rng::new(seed, 0x14);
    let mut case = Case::new(prop, if profile == 0 { "session-mix" } else { "session-table-history" }, seed, Mode::Session);
    if faults {
        swarm_params(&mut rng, &mut case);
    } else {
        case.params.policy = Policy::Np;
        case.params.fair = 64;
        case.params.node_cost = 100_000;
        case.params.tt_cap = 1024;
        case.family.push_str("/fault-free");
    }
    if rng.chance(1, 3) {
        case.raw("uci");
    }
    if rng.chance(1, 3) {
        case.raw("isready");
        case.push(GK::AwaitReady);
    }
    let games = rng.range(1, if profile == 0 { 3 } else { 2 });
    let mut quit_mid_search = false;
    for g in 0..games {
        if rng.chance(1, 2) {
            case.raw("ucinewgame");
        }
        // root
        let (root, class) = if profile == 1 && rng.chance(1, 4) {
            let grp = rng.pick(SIBLINGS);
            let f = *rng.pick(grp);
            (format!("fen {}", f), piece_class(&Pos::from_fen(f).unwrap()))
        } else {
            let r = rng.pick(ROOTS);
            (root_cmd(r), r.class)
        };
        let pre_n = if rng.chance(1, 2) { 0 } else { rng.below(10) };
        let pre = walk(&mut rng, &root, pre_n);
        let class = if pre.len() > 4 { class.max(1) } else { class };
        case.push(GK::NewGame { root: root.clone(), pre });
        let turns = if profile == 0 { rng.range(1, 4) } else { rng.range(2, 8) };
        for t in 0..turns {
            case.push(GK::PosCur);
            if rng.chance(1, 8) {
                case.raw("show");
            }
            let last = g + 1 == games && t + 1 == turns;
            if last && faults && rng.chance(1, 6) {
                // leave while searching
                case.raw("go infinite");
                case.push(GK::AfterPolls(rng.below(300)));
                quit_mid_search = true;
                break;
            }
            if faults {
                emit_go(&mut rng, &mut case, class, true);
            } else {
                let d = rng.range(1, max_depth_for(class));
                case.raw(format!("go depth {}", d));
                case.push(GK::AwaitBest);
            }
            // continue the same game, revisit, or step back
            match rng.below(10) {
                0..=5 => case.push(GK::Advance { best: true, replies: vec![rng.next() as u32] }),
                6 => case.push(GK::Advance { best: false, replies: vec![rng.next() as u32, rng.next() as u32] }),
                7 => case.push(GK::Retreat(rng.range(1, 2) as u32)),
                _ => {} // revisit the same position
            }
            if profile == 1 && rng.chance(1, 5) {
                // search a sibling position in between without clearing the table
                let grp = rng.pick(SIBLINGS);
                let f = *rng.pick(grp);
                case.raw(format!("position fen {}", f));
                case.raw(format!("go depth {}", rng.range(1, 4)));
                case.push(GK::AwaitBest);
            }
        }
        if quit_mid_search {
            break;
        }
    }
    if rng.chance(1, 2) || quit_mid_search && rng.chance(1, 2) {
        case.raw("quit");
    } else {
        case.push(GK::Close);
    }
    case
}

/// Direct-call histories: one table shared by a seeded sequence of (position, depth limit, stop poll) items.
pub fn gen_direct_history(prop: &str, seed: u64, faults: bool) -> Case {
    let mut rng = Rng::new(seed, 0x06);
    let mut case = Case::new(prop, if faults { "direct-table-history" } else { "direct-table-history/fault-free" }, seed, Mode::Direct);
    case.params.policy = Policy::Np;
    case.params.node_cost = 1_000;
    case.params.max_polls = 400_000;
    case.params.max_steps = 1_000_000;
    let n_games = rng.range(1, 3);
    for _ in 0..n_games {
        let (root, class) = if rng.chance(1, 3) {
            let grp = rng.pick(SIBLINGS);
            let f = *rng.pick(grp);
            (f.to_string(), piece_class(&Pos::from_fen(f).unwrap()))
        } else {
            let r = rng.pick(ROOTS);
            (r.fen.to_string(), r.class)
        };
        let n_walk = rng.below(24);
        let mut line = walk(&mut rng, &root, n_walk);
        let mut at = rng.below(line.len() as u64 + 1) as usize;
        let n_items = rng.range(2, 10);
        for _ in 0..n_items {
            let cls = if at > 4 { class.max(1) } else { class };
            let depth = rng.range(1, max_depth_for(cls)) as u8;
            let stop_at = if faults && rng.chance(1, 3) {
                Some(if rng.chance(1, 3) { rng.below(4) } else { rng.log_uniform(1, 3_000) })
            } else {
                None
            };
            case.items.push(DItem { root: root.clone(), moves: line[..at].to_vec(), depth: Some(depth), stop_at, fresh: false });
            match rng.below(10) {
                0..=4 => at = (at + rng.range(1, 2) as usize).min(line.len()),
                5 => at = at.saturating_sub(rng.range(1, 2) as usize),
                6 => {
                    // branch: new continuation from here
                    line.truncate(at);
                    let more = walk_from(&mut rng, &root, &line, 6);
                    line.extend(more);
                }
                _ => {}
            }
        }
    }
    case
}

impl Rng {
    fn clone_below(&mut self, n: u64) -> u64 {
        self.below(n)
    }
}

pub fn walk_from(rng: &mut Rng, root: &str, pre: &[String], n: u64) -> Vec<String> {
    let mut out = vec![];
    let Some(mut p) = crate::gui::root_pos(root) else { return out };
    for m in pre {
        if !p.play(m) {
            return out;
        }
    }
    for _ in 0..n {
        let l = p.legal_moves();
        if l.is_empty() {
            break;
        }
        let m = rng.pick(&l).clone();
        p.play(&m);
        out.push(m);
    }
    out
}

/// The case a seed expands to for a property's default workload mix.
pub fn gen(prop: &str, seed: u64, tier_thorough: bool) -> Case {
    let _ = tier_thorough;
    match prop {
        "C14" => gen_session("C14", seed, 0, true),
        "C06" | "C18" => match seed % 10 {
            0..=3 => gen_session(prop, seed, 1, true),
            4 => gen_session(prop, seed, 1, false),
            5..=7 => gen_direct_history(prop, seed, true),
            _ => gen_direct_history(prop, seed, false),
        },
        _ => gen_session(prop, seed, 0, true),
    }
}

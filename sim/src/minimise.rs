//! Shrinks a failing case while the same (property, rule) keeps failing, then writes the replay file.

use crate::case::{Case, Mode, GK};
use crate::oracle;
use crate::verif_shim::sched::{Outcome, Plan};
use serde_json::{json, Value};

struct Ctx<'a> {
    prop: &'a str,
    rule: String,
    runs: u64,
    budget: u64,
}

fn fails(ctx: &mut Ctx, case: &Case) -> Option<(Outcome, oracle::Viol)> {
    ctx.runs += 1;
    let (out, an, _) = crate::evaluate(case);
    let v = an.viols.into_iter().find(|v| v.prop == ctx.prop && v.rule == ctx.rule)?;
    Some((out, v))
}

/// one pass of chunked removal over a vector-valued part of the case
fn shrink_list<T: Clone>(ctx: &mut Ctx, case: &mut Case, get: fn(&Case) -> Vec<T>, set: fn(&mut Case, Vec<T>)) {
    let mut chunk = (get(case).len() / 2).max(1);
    loop {
        let mut i = 0;
        let mut progressed = false;
        while i < get(case).len() {
            if ctx.runs >= ctx.budget {
                return;
            }
            let cur = get(case);
            let end = (i + chunk).min(cur.len());
            let mut cand = cur.clone();
            cand.drain(i..end);
            let mut c2 = case.clone();
            set(&mut c2, cand);
            if fails(ctx, &c2).is_some() {
                *case = c2;
                progressed = true;
            } else {
                i = end;
            }
        }
        if chunk == 1 && !progressed {
            return;
        }
        if chunk > 1 {
            chunk /= 2;
        }
    }
}

pub fn minimise(mut case: Case, prop: &str, rule: Option<&str>, budget: u64) -> Option<Value> {
    // 1. reproduce as given (seeded plan) and fix the rule
    let (out0, an0, _) = crate::evaluate(&case);
    let first = an0.viols.iter().find(|v| v.prop == prop && rule.map_or(true, |r| r == v.rule))?.clone();
    let mut ctx = Ctx { prop, rule: first.rule.to_string(), runs: 1, budget };
    let original_steps = case.steps.len() + case.items.len();
    let original_decisions;
    // 2. switch to the recorded schedule: explicit decisions and faults
    if let Plan::Gen { .. } = case.plan {
        let mut c2 = case.clone();
        c2.plan = Plan::Scripted { decisions: out0.decisions.clone(), oversleeps: out0.oversleeps.clone() };
        if fails(&mut ctx, &c2).is_some() {
            case = c2;
        }
    }
    original_decisions = match &case.plan {
        Plan::Scripted { decisions, .. } => decisions.len(),
        _ => 0,
    };
    // 2b. a violation inside a stop sweep or a many-roots item: keep only the one failing search
    if case.mode == Mode::Direct {
        if let Some((_, v)) = fails(&mut ctx, &case) {
            let at = v.at as usize;
            if at < case.items.len() {
                if let (Some(k), true) = (v.k, case.items[at].sweep.is_some()) {
                    let mut c2 = case.clone();
                    c2.items[at].sweep = None;
                    c2.items[at].stop_at = Some(k);
                    c2.items[at].isolated = true;
                    if fails(&mut ctx, &c2).is_some() {
                        case = c2;
                    }
                }
                if case.items[at].walks.is_some() {
                    // the detail names the moves of the failing search: "... moves [a b c] depth ..."
                    if let Some(ms) = v.detail.split("moves [").nth(1).and_then(|r| r.split(']').next()) {
                        let failing: Vec<String> = ms.split_ascii_whitespace().map(|x| x.to_string()).collect();
                        // keep the walks (they fill the table) but halve them while the explicit failing search still fails
                        let mut c2 = case.clone();
                        let mut extra = c2.items[at].clone();
                        extra.walks = None;
                        extra.moves = failing;
                        c2.items.insert(at + 1, extra);
                        loop {
                            let mut c3 = c2.clone();
                            let n = c3.items[at].walks.as_ref().map(|w| w.n).unwrap_or(0);
                            if n <= 1 {
                                break;
                            }
                            c3.items[at].walks.as_mut().unwrap().n = n / 2;
                            let still = {
                                let (o, an, _) = crate::evaluate(&c3);
                                let _ = o;
                                an.viols.iter().any(|x| x.prop == ctx.prop && x.rule == ctx.rule && x.at as usize == at + 1)
                            };
                            ctx.runs += 1;
                            if still && ctx.runs < ctx.budget {
                                c2 = c3;
                            } else {
                                break;
                            }
                        }
                        if fails(&mut ctx, &c2).is_some() {
                            case = c2;
                        }
                    }
                }
            }
        }
    }
    if let Plan::Scripted { .. } = case.plan {
        // 3. drop workload steps / items
        match case.mode {
            Mode::Session => shrink_list(&mut ctx, &mut case, |c| c.steps.clone(), |c, v| c.steps = v),
            Mode::Direct => shrink_list(&mut ctx, &mut case, |c| c.items.clone(), |c, v| c.items = v),
            Mode::Autoplay => {}
        }
        // 4. drop scheduling decisions and injected oversleeps
        shrink_list(
            &mut ctx,
            &mut case,
            |c| match &c.plan {
                Plan::Scripted { decisions, .. } => decisions.clone(),
                _ => vec![],
            },
            |c, v| {
                if let Plan::Scripted { decisions, .. } = &mut c.plan {
                    *decisions = v;
                }
            },
        );
        shrink_list(
            &mut ctx,
            &mut case,
            |c| match &c.plan {
                Plan::Scripted { oversleeps, .. } => oversleeps.clone(),
                _ => vec![],
            },
            |c, v| {
                if let Plan::Scripted { oversleeps, .. } = &mut c.plan {
                    *oversleeps = v;
                }
            },
        );
        // 5. simplify arguments: shorter pre-move lists, shorter waits
        let mut k = 0;
        while k < case.steps.len() && ctx.runs < ctx.budget {
            let mut c2 = case.clone();
            let changed = match &mut c2.steps[k].k {
                GK::NewGame { pre, .. } if !pre.is_empty() => {
                    pre.pop();
                    true
                }
                GK::AfterPolls(n) if *n > 0 => {
                    *n /= 2;
                    true
                }
                GK::Delay(n) if *n > 0 => {
                    *n /= 2;
                    true
                }
                GK::Advance { replies, .. } if !replies.is_empty() => {
                    replies.pop();
                    true
                }
                _ => false,
            };
            if changed && fails(&mut ctx, &c2).is_some() {
                case = c2;
            } else {
                k += 1;
            }
        }
        let mut k = 0;
        while k < case.items.len() && ctx.runs < ctx.budget {
            let mut c2 = case.clone();
            let it = &mut c2.items[k];
            let changed = if !it.moves.is_empty() {
                it.moves.pop();
                true
            } else {
                false
            };
            if changed && fails(&mut ctx, &c2).is_some() {
                case = c2;
            } else {
                k += 1;
            }
        }
        // 6. one more pass over the steps (earlier removals may have made others removable)
        if case.mode == Mode::Session {
            shrink_list(&mut ctx, &mut case, |c| c.steps.clone(), |c, v| c.steps = v);
        }
    }
    let (out, viol) = fails(&mut ctx, &case)?;
    let dec = match &case.plan {
        Plan::Scripted { decisions, .. } => decisions.len(),
        _ => 0,
    };
    let trace_lines: Vec<String> = {
        let all: Vec<String> = crate::trace(&out).lines().map(|l| l.to_string()).collect();
        if all.len() > 400 {
            let mut v: Vec<String> = all[..60].to_vec();
            v.push(format!("... {} lines omitted (./check replay <this file> prints the complete trace) ...", all.len() - 360));
            v.extend_from_slice(&all[all.len() - 300..]);
            v
        } else {
            all
        }
    };
    Some(json!({
        "violation": {
            "property": prop,
            "rule": viol.rule,
            "detail": viol.detail,
            "at_step": viol.at,
            "log_hash": format!("{:016x}", out.log_hash),
            "verdict": format!("{:?}", out.verdict),
        },
        "minimisation": {
            "runs": ctx.runs,
            "steps_before": original_steps,
            "steps_after": case.steps.len() + case.items.len(),
            "decisions_before": original_decisions,
            "decisions_after": dec,
        },
        "repo": env!("VERIF_REPO_BUILT"),
        "case": case.to_json(),
        "trace": trace_lines,
    }))
}

//! `std::thread::{spawn, sleep, JoinHandle}` on the simulator's threads and clock.
use super::sched;

pub struct JoinHandle<T> {
    id: sched::Tid,
    slot: sched::Slot<T>,
}

pub fn spawn<F, T>(f: F) -> JoinHandle<T>
where
    F: FnOnce() -> T + Send + 'static,
    T: Send + 'static,
{
    let (id, slot) = sched::spawn_thread(f);
    JoinHandle { id, slot }
}

impl<T> JoinHandle<T> {
    pub fn join(self) -> std::thread::Result<T> {
        sched::join_thread(self.id, &self.slot)
    }
}

pub fn sleep(d: std::time::Duration) {
    sched::sleep_ns(d.as_nanos().min(u64::MAX as u128) as u64)
}

//! The simulator's side of the import seam (`--cfg daniel729_chess_verif`): the engine's
//! `uci.rs`, `search.rs` and `autoplay.rs` take these names instead of the `std` ones.
pub mod hashmap;
pub mod sched;
pub mod stdio;
pub mod sync;
pub mod thread;

pub mod uci_prelude {
    pub use super::hashmap::HashMap;
    pub use super::stdio::stdin;
    pub use super::sync::{AtomicBool, Mutex, Relaxed};
    pub use super::thread::{self, JoinHandle};
    pub use std::str::SplitAsciiWhitespace;
    pub use std::sync::Arc;
    pub use std::time::Duration;
}

pub mod search_prelude {
    pub use super::hashmap::HashMap;
    pub use super::sync::{AtomicBool, Relaxed};
}

pub mod autoplay_prelude {
    pub use super::hashmap::HashMap;
    pub use super::sync::{AtomicBool, Relaxed};
    pub use ::std::sync::Arc;
    pub use ::std::time::Duration;
    /// `autoplay.rs` writes `std::thread::spawn` / `std::thread::sleep` in full; this module
    /// shadows the extern crate name inside that file.
    pub mod std {
        pub mod thread {
            pub use crate::verif_shim::thread::{sleep, spawn};
        }
    }
}

//! `std::io::stdin().lines()` fed by the simulated GUI.
use super::sched;

pub struct Stdin;
pub struct Lines;
pub fn stdin() -> Stdin {
    Stdin
}
impl Stdin {
    pub fn lines(self) -> Lines {
        Lines
    }
}
impl Iterator for Lines {
    type Item = std::io::Result<String>;
    fn next(&mut self) -> Option<Self::Item> {
        sched::stdin_next().map(Ok)
    }
}
